"""Shared generator + runner for the cross-validation properties (C02, C11, C07, C04)."""

from __future__ import annotations

import uuid

import numpy as np
from hypothesis import strategies as st

import config_inject
import datagen
import recorder
from core import Rejected, guarded

ALLOWED_BREW = [
    (RuntimeError, r"No PSMs found below the 'eval_fdr'"),
    (RuntimeError, r"No PSMs accepted at train_fdr"),
    (RuntimeError, r"Failed to calibrate scores"),
    (RuntimeError, r"No target PSMs were below the 'eval_fdr'"),
]


@st.composite
def cv_case(draw, tier, estimators=("Lin", "Proba"), fdrs=(0.31,), weak=False):
    folds = draw(st.integers(2, 6))
    nfiles = draw(st.sampled_from([1, 1, 2, 3]))
    max_mult = draw(st.integers(1, 5))
    big = tier != "quick"
    files = []
    base_rows = None
    for f in range(nfiles):
        lo = (40 * folds) // max(1, (1 + max_mult) // 2) + 5
        ns = draw(st.integers(lo, lo + (120 if big else 50)))
        mults = datagen.draw_mults(draw, st, (ns, ns), max_mult)
        # make sure at least 30 rows per fold
        while sum(mults) < 40 * folds + 5:
            mults.append(1)
        files.append({"mults": mults})
    key = draw(st.integers(1, 4))
    cap_kind = draw(st.sampled_from(["none", "none", "huge", "active", "active"]))
    cap_frac = draw(st.integers(40, 90))
    return {
        "seed": draw(st.integers(0, 2**31 - 1)),
        "files": files,
        "key": key,
        "shared_prefix": draw(st.booleans()),
        "folds": folds,
        "cap_kind": cap_kind,
        "cap_frac": cap_frac,
        "workers": draw(st.integers(1, 8)),
        "rng": draw(st.integers(0, 2**31 - 1)),
        "est": draw(st.sampled_from(list(estimators))),
        "fmt": draw(st.sampled_from(["tsv", "tsv", "parquet"])),
        "row_group": draw(st.sampled_from([None, 1, 7, 64])),
        "n_noise": draw(st.integers(0, 3)),
        "test_fdr": draw(st.sampled_from(list(fdrs))),
        "label_enc": draw(st.sampled_from(["pm1", "01", "bool"])),
        "predict_chunk": draw(st.sampled_from([None, None, 17, 50, 50, 1])),
        "readall_chunk": draw(st.sampled_from([None, None, 13, 64])),
        "sep": 1.6 if weak else draw(st.sampled_from([4.0, 5.0])),
        # the spectra frame handed to OnDiskPsmDataset may carry index labels of its own (rows still in file order)
        "own_index": draw(st.sampled_from([False, False, True])),
        # a fold-count sweep: the same collections (shallow copies sharing one spectra table, the idiom of mokapot's own
        # tests) were brewed before with another number of folds
        "sweep_before": draw(st.sampled_from([None, None, None, "fewer", "more"])),
        # brew is handed ONE already trained model (not a list of fold models): it serves as the starting point of every fold
        "single_trained": draw(st.sampled_from([False, False, False, False, True])),
        # training fails in some folds only (estimator LinFailSome, see recorder): positions of 1..folds-1 marker decoys
        "fail_marks": draw(st.sampled_from([None, None, None, None, None, "some"])) and draw(st.lists(st.integers(0, 10**6), min_size=1, max_size=folds - 1)),
    }


ESTIMATORS = {
    "Lin": recorder.Lin,
    "Cubic": recorder.Cubic,
    "LinTied": recorder.LinTied,
    "LinInt": recorder.LinInt,
    "LinOffset": recorder.LinOffset,
    "LinTiny": recorder.LinTiny,
    "LinBoth": recorder.LinBoth,
    "Proba": recorder.Proba,
    "Proba1": recorder.Proba1,
    "Const": recorder.Const,
    "Invert": recorder.Invert,
    "Memo": recorder.Memo,
    "LinFailSome": recorder.LinFailSome,
}


def build_datasets(case, tmp, with_rid=True, label_enc=None, id_prefix=""):
    dfs, metas, psms = [], [], []
    ext = ".parquet" if case["fmt"] == "parquet" else ".pin"
    for fi, f in enumerate(case["files"]):
        df, meta = datagen.psm_frame(
            case["seed"] + 7919 * fi,
            f["mults"],
            key_arity=case["key"],
            n_noise=case["n_noise"],
            sep=f.get("sep", case.get("sep", 3.0)),
            file_index=fi,
            with_rid=with_rid,
            shared_prefix_keys=case.get("shared_prefix", False),
            label_enc=label_enc or case.get("label_enc", "pm1"),
            informative_sign=case.get("sign", 1.0),
            id_prefix=id_prefix,
            twin=case.get("twin", False),
            flag_feature=case.get("flag", False),
            targets_first=case.get("targets_first", False),
        )
        path = tmp / f"{id_prefix}file{fi}{ext}"
        datagen.write_table(df, path, row_group=case.get("row_group"))
        dfs.append(df)
        metas.append(meta)
        psms.append(datagen.build_ondisk(path, df, meta, raw_labels=case.get("raw_labels", False), own_index=case.get("own_index", False)))
    return dfs, metas, psms


def cap_value(case, dfs):
    if case["cap_kind"] == "none":
        return None
    total = sum(len(d) for d in dfs)
    if case["cap_kind"] == "huge":
        return total * 2
    # active: a fraction of the smallest possible training size such that the per-file
    # share never exceeds a file's own training rows (documented domain restriction)
    folds = case["folds"]
    min_file = min(len(d) for d in dfs)
    per_file_train_min = min_file - (min_file // folds + 12)
    per_file = max(5, per_file_train_min * case["cap_frac"] // 100)
    return int(per_file * len(dfs))


def run_brew(case, tmp, train_fdr=0.23, override=True, max_iter=3, estimator=None, model=None, capture=False):
    """Run mokapot.brew on the generated case with a recording estimator.
    Returns dict(dfs, metas, models, scores, descs, events, cap)."""
    import mokapot

    dfs, metas, psms = build_datasets(case, tmp)
    if case.get("sweep_before"):
        import copy

        other = max(2, case["folds"] - 1) if case["sweep_before"] == "fewer" else case["folds"] + 1
        if other != case["folds"] and min(len(d) for d in dfs) // other >= 12:
            first = [copy.copy(p) for p in psms]
            psms = [copy.copy(p) for p in psms]
            prelog = "pre_" + uuid.uuid4().hex
            recorder.new_log(prelog)
            try:
                with config_inject.chunk_sizes(predict=case.get("predict_chunk"), readall=case.get("readall_chunk")):
                    pre_model = recorder.make_model((ESTIMATORS[case["est"]] if estimator is None else estimator)(log=prelog),
                                                    train_fdr=train_fdr, max_iter=1, override=True, shuffle=True)
                    guarded(mokapot.brew, first, pre_model, test_fdr=case["test_fdr"], folds=other, max_workers=1, rng=case["rng"] + 1,
                            allowed=ALLOWED_BREW, sig="brew-earlier-fold-count")
            except Rejected:
                pass
            finally:
                recorder.drop_log(prelog)
    logname = "log_" + uuid.uuid4().hex
    recorder.new_log(logname)
    try:
        if model is None:
            est_cls = ESTIMATORS[case["est"]] if estimator is None else estimator
            est = est_cls(log=logname)
            if case.get("fail_marks") and estimator is None and case["est"] in ("Lin", "Proba"):
                # markers = decoy rows of the first file; a fold holding one of them out fails to train
                decoys = np.flatnonzero(~np.asarray(metas[0]["is_target"], dtype=bool))
                marks = tuple(sorted({int(decoys[m % len(decoys)]) for m in case["fail_marks"]}))
                warm = bool(case.get("single_trained") and not case.get("sweep_before"))
                # with a warm start the earlier analysis trains every fold; the markers are armed for the observed run only, whose
                # re-training then "performs worse" in the folds that hold a marker out (brew falls back to the model it was given)
                est = recorder.LinFailSome(log=logname, markers=() if warm else marks)
            # a recording (identity) scaler: the scaler is part of a fold's model and is fitted on that fold's training rows
            model = recorder.make_model(est, train_fdr=train_fdr, max_iter=max_iter, override=override, shuffle=True,
                                        scaler=recorder.RecScaler(identity=True))
        cap = cap_value(case, dfs)
        if case.get("single_trained") and estimator is None and not case.get("sweep_before"):
            # an earlier analysis of the same collections supplies the trained model; its log is discarded
            import copy

            first = [copy.copy(p) for p in psms]
            psms = [copy.copy(p) for p in psms]
            try:
                with config_inject.chunk_sizes(predict=case.get("predict_chunk"), readall=case.get("readall_chunk")):
                    pre = guarded(mokapot.brew, first, model, test_fdr=case["test_fdr"], folds=case["folds"], max_workers=1, rng=case["rng"] + 7,
                                  allowed=ALLOWED_BREW, sig="brew-first-analysis")
                if pre[1] is not None and all(m.is_trained for m in pre[1]):
                    model = pre[1][0]
                    if isinstance(model.estimator, recorder.LinFailSome):
                        model.estimator.markers = marks
            except Rejected:
                pass
            recorder.drop_log(logname)
            recorder.new_log(logname)
        with config_inject.chunk_sizes(predict=case.get("predict_chunk"), readall=case.get("readall_chunk")):
            error = None
            try:
                res = guarded(
                    mokapot.brew,
                    psms,
                    model,
                    test_fdr=case["test_fdr"],
                    folds=case["folds"],
                    max_workers=case["workers"],
                    rng=case["rng"],
                    subset_max_train=cap,
                    allowed=ALLOWED_BREW,
                    sig="brew",
                )
            except Rejected as r:
                if not capture:
                    raise
                error = str(r)
                res = (None, None, None, None)
        _, models, scores, descs = res
        events = list(recorder.LOGS[logname])
    finally:
        recorder.drop_log(logname)
    return {"dfs": dfs, "metas": metas, "models": models, "scores": scores, "descs": descs, "events": events, "cap": cap,
            "error": error, "given_token": getattr(getattr(model, "estimator", None), "__dict__", {}).get("token_")}


def full_keys(df, meta):
    cols = meta["key_cols"]
    return list(zip(*[df[c].tolist() for c in cols]))


def mismatch_refused(case, tmp, models, folds):
    """brew with trained fold models whose number differs from the requested fold count: there is no "model of its fold"
    for every PSM then, so the call has to be refused.  Returns True when it raised, False when it returned scores."""
    import mokapot

    _, _, psms = build_datasets(case, tmp)
    lognames = {getattr(m.estimator, "log", None) for m in models}
    for n in lognames:
        if n:
            recorder.new_log(n)
    try:
        with config_inject.chunk_sizes(predict=case.get("predict_chunk"), readall=case.get("readall_chunk")):
            try:
                mokapot.brew(psms, list(models), test_fdr=case["test_fdr"], folds=folds, max_workers=1, rng=case["rng"])
            except Exception:  # noqa: BLE001
                return True
        return False
    finally:
        for n in lognames:
            if n:
                recorder.drop_log(n)


def rescore(case, tmp, models, order, capture_events=False, rng_shift=0):
    """Second brew call on the same files with the already trained fold models handed over in another order
    (`order` may repeat an index: the same model for several folds).
    Returns the list of score arrays (or raises Rejected / Violation via guarded); with capture_events also the
    recorder events of this call."""
    import mokapot

    _, _, psms = build_datasets(case, tmp)
    lognames = {getattr(m.estimator, "log", None) for m in models}
    for n in lognames:
        if n:
            recorder.new_log(n)
    events = []
    try:
        with config_inject.chunk_sizes(predict=case.get("predict_chunk"), readall=case.get("readall_chunk")):
            res = guarded(
                mokapot.brew,
                psms,
                [models[i] for i in order],
                test_fdr=case["test_fdr"],
                folds=case["folds"],
                max_workers=case["workers"],
                rng=case["rng"] + rng_shift,
                allowed=ALLOWED_BREW,
                sig="brew-pretrained",
            )
    finally:
        for n in lognames:
            if n:
                events.extend(recorder.LOGS.get(n, []))
                recorder.drop_log(n)
    return (res[2], events) if capture_events else res[2]
