"""Configuration injection: chunk-size constants, PEP stub, task delays.

The chunk sizes are module-level constants that mokapot's own tests patch the same way
(tests/unit_tests/test_confidence.py).  NB: `import mokapot.brew` yields the *function*
brew (the package __init__ shadows the sub-module); the module is taken from sys.modules.
"""

from __future__ import annotations

import contextlib
import sys
import time

import numpy as np

CHUNK_ATTRS = {
    "confidence": [("mokapot.confidence", "CONFIDENCE_CHUNK_SIZE"), ("mokapot.constants", "CONFIDENCE_CHUNK_SIZE")],
    "merge": [("mokapot.utils", "MERGE_SORT_CHUNK_SIZE"), ("mokapot.constants", "MERGE_SORT_CHUNK_SIZE")],
    "predict": [("mokapot.brew", "CHUNK_SIZE_ROWS_PREDICTION")],
    "readall": [("mokapot.brew", "CHUNK_SIZE_READ_ALL_DATA")],
    "colscan": [("mokapot.parsers.pin", "CHUNK_SIZE_COLUMNS_FOR_DROP_COLUMNS")],
    "rowscan": [("mokapot.parsers.pin", "CHUNK_SIZE_ROWS_FOR_DROP_COLUMNS")],
}


def _mods():
    import mokapot  # noqa: F401
    import mokapot.brew  # noqa: F401
    import mokapot.confidence  # noqa: F401
    import mokapot.parsers.pin  # noqa: F401
    import mokapot.utils  # noqa: F401
    import mokapot.brew_rollup  # noqa: F401

    return sys.modules


@contextlib.contextmanager
def chunk_sizes(**sizes):
    """chunk_sizes(confidence=7, predict=3, ...) ; None leaves a constant alone."""
    mods = _mods()
    saved = []
    try:
        for name, val in sizes.items():
            if val is None:
                continue
            # every loaded mokapot module that holds a copy of the constant (modules bind it at import with
            # `from .constants import ...`; a refactoring may add or move such copies)
            attrs = {attr for _, attr in CHUNK_ATTRS[name]}
            for modname, mod in list(mods.items()):
                if mod is None or not (modname == "mokapot" or modname.startswith("mokapot.")):
                    continue
                for attr in attrs:
                    if isinstance(getattr(mod, attr, None), int):
                        saved.append((mod, attr, getattr(mod, attr)))
                        setattr(mod, attr, int(val))
        yield
    finally:
        for mod, attr, old in reversed(saved):
            setattr(mod, attr, old)


def install_pep_stub():
    """A PEP 'estimator' that is a fixed decreasing function of the score, selectable
    through the public peps_algorithm= argument.  Used where PEP estimation is not the
    property: the real estimators raise on small / two-valued score sets."""
    import mokapot.peps as peps

    if "verif_stub" not in peps.PEP_ALGORITHM:
        peps.PEP_ALGORITHM["verif_stub"] = lambda scores, targets: pep_stub(scores)


def pep_stub(scores):
    s = np.asarray(scores, dtype=float)
    return 1.0 / (1.0 + np.exp(np.clip(s, -500, 500)))


@contextlib.contextmanager
def task_delays(table):
    """Perturb the completion order of worker threads reproducibly: the thread entry
    points sleep table[key % len(table)] milliseconds, key = a stable per-task number."""
    mods = _mods()
    if not table:
        yield
        return
    brew_mod = mods["mokapot.brew"]
    pin_mod = mods["mokapot.parsers.pin"]
    conf_mod = mods["mokapot.confidence"]
    saved = []
    counter = {"n": 0}

    def wrap(mod, name, keyfn):
        orig = getattr(mod, name)

        def wrapped(*a, **k):
            try:
                key = keyfn(*a, **k)
            except Exception:  # noqa: BLE001
                key = counter["n"]
            counter["n"] += 1
            time.sleep(table[int(key) % len(table)] / 1000.0)
            return orig(*a, **k)

        wrapped.__wrapped__ = orig
        saved.append((mod, name, orig))
        setattr(mod, name, wrapped)

    try:
        wrap(brew_mod, "_fit_model", lambda train_set, psms, model, fold: fold)
        wrap(brew_mod, "predict_fold", lambda model, fold, psms, scores: fold + 1)
        if hasattr(brew_mod, "_create_psms"):
            # a step *inside* a training task (between its first statements and the fit): stalls a task in mid-flight while
            # others start, so that state shared between the fold tasks is seen in another order
            wrap(brew_mod, "_create_psms", lambda *a, **k: counter["n"] * 2 + 1)
        wrap(pin_mod, "get_rows_from_dataframe", lambda idx, chunk, *a, **k: int(chunk.index[0]) if len(chunk) else 0)
        wrap(pin_mod, "drop_missing_values_and_fill_spectra_dataframe", lambda reader, column, *a, **k: len(str(column[0])) + len(column))
        wrap(conf_mod, "_save_sorted_metadata_chunks", lambda chunk_metadata, *a, **k: int(chunk_metadata.index[0]) if len(chunk_metadata) else 0)
        yield
    finally:
        for mod, name, orig in reversed(saved):
            setattr(mod, name, orig)
