#!/bin/bash
# usage: confirm_seed.sh <dir with patch.diff and demo.py> [baseline outcome list]
# Confirms a seeded change independently of its author, in a scratch git worktree of /repo's HEAD outside /repo and /verif:
#   demo.py exits 0 on the clean tree and 1 with the patch; the pytest outcome list with the patch equals the clean tree's.
# Prints one line "CONFIRM <dir> clean=<rc> patched=<rc> tests=<SAME|DIFFERENT|...>"; removes the worktree afterwards.
set -u
DIR=$(readlink -f "$1"); BASE=${2:-/tmp/seed_out7/baseline_outcomes.txt}
WT=$(mktemp -d /tmp/vp_confirm_XXXXXX); rmdir $WT
git -C /repo worktree add --detach -q $WT HEAD || { echo "CONFIRM $DIR worktree-failed"; exit 2; }
outcomes() { (cd $WT && /venv/bin/python -m pytest -q -p no:cacheprovider --timeout=900 --continue-on-collection-errors -rA 2>&1 | grep -E '^(PASSED|FAILED|ERROR|SKIPPED|XFAIL|XPASS) tests/' | sed 's/ - .*//' | sort); }
if [ ! -s "$BASE" ]; then outcomes > $BASE; fi
(cd /tmp && PYTHONPATH=$WT timeout 600 /venv/bin/python $DIR/demo.py >/dev/null 2>&1); c=$?
if ! (cd $WT && patch -p1 --quiet < $DIR/patch.diff >/dev/null 2>&1); then
  echo "CONFIRM $DIR patch-does-not-apply"; git -C /repo worktree remove --force $WT; exit 3; fi
(cd /tmp && PYTHONPATH=$WT timeout 600 /venv/bin/python $DIR/demo.py >/dev/null 2>&1); p=$?
outcomes > $WT.out
if diff -q $BASE $WT.out >/dev/null; then t=SAME; else t=DIFFERENT; fi
echo "CONFIRM $DIR clean=$c patched=$p tests=$t"
rm -f $WT.out; git -C /repo worktree remove --force $WT
