"""Core of the property-based verification harness for wfondrie/mokapot.

A property module (harness/props/cXX.py) provides

    ID, LEVEL, RULE, ASSUMPTIONS, TECHNIQUE
    budget(tier)            -> {"examples": int, "shards": int, "time_s": float, "shrink_s": float}
    strategy(tier)          -> hypothesis strategy producing a JSON-able "case"
    check(case)             -> observation dict {"nontrivial": bool, "classes": [...], "counters": {...}}
                               raises Violation (property broken), Rejected (deliberate rejection)
    enumerate_cases(tier)   -> optional iterator of JSON cases (exhaustive sub-domain), sharded by index
    extra(tier, seed, shard, nshards, stats) -> optional additional generated work (child processes, fuzzers)

Everything random is drawn by Hypothesis; a run is a function of the tree under
test, VERIF_SEED and the tier.  Exit codes: 0 held, 1 violation, 2 harness error.
"""

from __future__ import annotations

import atexit
import hashlib
import json
import os
import re
import shutil
import subprocess
import sys
import tempfile
import time
import traceback
from collections import Counter
from pathlib import Path

VERIF = Path(__file__).resolve().parent.parent
HARNESS = VERIF / "harness"
REPO = os.environ.get("VERIF_REPO", "/repo")
GUARD = "MOKAPOT_VERIF"


# ----------------------------------------------------------------------------
def bootstrap():
    """Make the tree under test and the harness importable."""
    os.environ.setdefault(GUARD, "1")
    deps = VERIF / ".deps"
    if deps.is_dir() and str(deps) not in sys.path:
        sys.path.insert(0, str(deps))
    if str(HARNESS) not in sys.path:
        sys.path.insert(0, str(HARNESS))
    if REPO not in sys.path[:1]:
        sys.path.insert(0, REPO)
    import warnings

    warnings.filterwarnings("ignore")
    import logging

    logging.disable(logging.CRITICAL)


def ensure_dep(module):
    """Directory from which `module` (a wheel of /opt/veriftools/wheels) can be imported, installing it offline into a
    scratch directory if neither the interpreter nor <verif>/.deps has it.  None if it cannot be provided."""
    import importlib.util

    for cand in (None, VERIF / ".deps", Path("/verif/.deps")):
        if cand is None:
            if importlib.util.find_spec(module) is not None:
                return ""
        elif (cand / module).exists():
            return str(cand)
    target = scratch_root() / "deps"
    rc = subprocess.call([sys.executable, "-m", "pip", "install", "--no-index", "--find-links", "/opt/veriftools/wheels", "--target",
                          str(target), "--quiet", module], stdout=subprocess.DEVNULL, stderr=subprocess.DEVNULL)
    return str(target) if rc == 0 and (target / module).exists() else None


class Violation(Exception):
    """The property under test does not hold for this case."""

    def __init__(self, signature, message=""):
        super().__init__(f"{signature}: {message}")
        self.signature = signature
        self.message = message


class Rejected(Exception):
    """mokapot deliberately rejected an input the property allows it to reject."""


class BudgetExhausted(Exception):
    pass


def require(cond, signature, message=""):
    if not cond:
        raise Violation(signature, message if isinstance(message, str) else repr(message))


def guarded(fn, *args, allowed=(), sig="exception", **kwargs):
    """Call into mokapot.  Exceptions matching `allowed` [(type, regex)] are
    deliberate rejections; any other exception on an in-domain input is a
    violation carrying the exception type in its signature."""
    try:
        return fn(*args, **kwargs)
    except (Violation, Rejected):
        raise
    except BaseException as exc:  # noqa: BLE001
        if isinstance(exc, (KeyboardInterrupt, MemoryError)):
            raise
        for typ, pat in allowed:
            if isinstance(exc, typ) and re.search(pat, str(exc)):
                raise Rejected(f"{type(exc).__name__}: {exc}") from None
        tb = traceback.extract_tb(exc.__traceback__)
        where = ""
        for fr in reversed(tb):
            if "/mokapot/" in fr.filename:
                where = f"{Path(fr.filename).name}:{fr.name}"
                break
        raise Violation(
            f"{sig}:{type(exc).__name__}@{where}",
            f"{type(exc).__name__}: {str(exc)[:400]}",
        ) from None


# ----------------------------------------------------------------------------
def canon(case):
    return json.dumps(case, sort_keys=True, separators=(",", ":"), default=str)


def case_hash(case):
    return hashlib.sha256(canon(case).encode()).hexdigest()[:16]


_SCRATCH_ROOT = None


def scratch_root():
    global _SCRATCH_ROOT
    if _SCRATCH_ROOT is None:
        base = "/dev/shm" if os.path.isdir("/dev/shm") and os.access("/dev/shm", os.W_OK) else None
        _SCRATCH_ROOT = Path(tempfile.mkdtemp(prefix="vp_", dir=base))
        atexit.register(shutil.rmtree, _SCRATCH_ROOT, True)
    return _SCRATCH_ROOT


class scratch_dir:
    """Per-case scratch directory, removed on exit."""

    def __enter__(self):
        self.path = Path(tempfile.mkdtemp(prefix="c_", dir=scratch_root()))
        return self.path

    def __exit__(self, *exc):
        shutil.rmtree(self.path, ignore_errors=True)
        return False


# ----------------------------------------------------------------------------
class Stats:
    def __init__(self):
        self.evaluations = 0
        self.nontrivial = set()
        self.distinct = set()
        self.classes = Counter()
        self.counters = Counter()
        self.samples = []
        self.rejected = 0
        self.rejected_reasons = Counter()
        self.excluded_known = Counter()
        self.skipped_budget = 0
        self.enumerated = 0
        self.failure = None  # {"case", "signature", "message"}
        self.harness_error = None
        self.notes = {}

    def observe(self, case, obs, keep_sample=True):
        h = case_hash(case)
        self.distinct.add(h)
        if obs.get("nontrivial"):
            new = h not in self.nontrivial
            self.nontrivial.add(h)
            if new and keep_sample and len(self.samples) < 3:
                self.samples.append(_truncate(case))
        for c in obs.get("classes", ()):
            self.classes[c] += 1
        for k, v in obs.get("counters", {}).items():
            self.counters[k] += v

    def to_json(self):
        return {
            "evaluations": self.evaluations,
            "nontrivial": sorted(self.nontrivial),
            "distinct": len(self.distinct),
            "classes": dict(self.classes),
            "counters": dict(self.counters),
            "samples": self.samples,
            "rejected": self.rejected,
            "rejected_reasons": dict(self.rejected_reasons),
            "excluded_known": dict(self.excluded_known),
            "skipped_budget": self.skipped_budget,
            "enumerated": self.enumerated,
            "failure": self.failure,
            "harness_error": self.harness_error,
            "notes": self.notes,
        }


def _truncate(obj, limit=1500):
    s = canon(obj)
    if len(s) <= limit:
        return obj
    return {"truncated_json": s[:limit] + "...", "sha": case_hash(obj)}


# ----------------------------------------------------------------------------
def load_known(prop_id):
    path = VERIF / "known_findings.json"
    if not path.exists():
        return []
    data = json.loads(path.read_text())
    return [e for e in data.get("findings", []) if e.get("property") == prop_id]


def run_one(mod, case, stats, open_known, count=True):
    """Run check(case); classify the outcome.  Returns None or a failure dict."""
    if count:
        stats.evaluations += 1
    try:
        obs = mod.check(case)
    except Rejected as r:
        stats.rejected += 1
        stats.rejected_reasons[str(r)[:80]] += 1
        return None
    except Violation as v:
        # Known findings are tied to their committed regression input only (see run_property); a generated case
        # that fails - whatever its signature - is a violation.  Property modules keep known shapes out of the
        # generated domain by construction and report how many they excluded.
        return {"case": case, "signature": v.signature, "message": v.message}
    stats.observe(case, obs or {})
    return None


def shard_worker(prop_id, tier, seed, shard, nshards, out_path):
    bootstrap()
    import importlib

    mod = importlib.import_module(f"props.{prop_id.lower()}")
    stats = Stats()
    open_known = [e for e in load_known(prop_id) if e.get("status") == "open"]
    t0 = time.time()
    bud = mod.budget(tier)
    time_s = float(os.environ.get("VERIF_TIME_S", bud.get("time_s", 60)))
    shrink_s = bud.get("shrink_s", 30 if tier == "quick" else 240)
    try:
        # 1. exhaustive sub-domain, split by index
        if hasattr(mod, "enumerate_cases"):
            for i, case in enumerate(mod.enumerate_cases(tier)):
                if i % nshards != shard:
                    continue
                stats.enumerated += 1
                f = run_one(mod, case, stats, open_known)
                if f:
                    stats.failure = f
                    break
        # 2. generated search
        if stats.failure is None and bud.get("examples", 0) > 0:
            _hypothesis_search(mod, tier, seed, shard, nshards, stats, open_known, t0 + time_s, shrink_s, bud)
        # 3. extra generated work (child interpreters, fuzzers, statistical aggregation)
        if stats.failure is None and hasattr(mod, "extra"):
            mod.extra(tier, seed, shard, nshards, stats)
    except Exception:  # noqa: BLE001
        stats.harness_error = traceback.format_exc()
    stats.notes["wall_s"] = round(time.time() - t0, 2)
    Path(out_path).write_text(json.dumps(stats.to_json(), default=str))


def _hypothesis_search(mod, tier, seed, shard, nshards, stats, open_known, deadline, shrink_s, bud):
    import hypothesis
    from hypothesis import HealthCheck, Phase, given, settings

    n = max(1, bud["examples"] // nshards)
    failing = {}
    state = {"first_fail_t": None, "harness": None}

    def wrapped(case):
        h = case_hash(case)
        f = failing.get(h)
        if f is None:
            now = time.time()
            if state["harness"] is not None:
                return
            if state["first_fail_t"] is not None:
                if now - state["first_fail_t"] > shrink_s:
                    return  # shrink budget used up: no further candidates
            elif now > deadline:
                stats.skipped_budget += 1
                return
            try:
                f = run_one(mod, case, stats, open_known)
            except Exception:  # noqa: BLE001  harness error: stop searching, report exit 2
                state["harness"] = traceback.format_exc() + "\ncase=" + canon(case)[:3000]
                return
            if f:
                failing[h] = f
                if state["first_fail_t"] is None:
                    state["first_fail_t"] = time.time()
        if f:
            stats.failure = f  # hypothesis replays the minimal example last
            raise Violation(f["signature"], f["message"])  # single raise site (no Flaky)

    test = given(mod.strategy(tier))(wrapped)
    test = settings(
        max_examples=n,
        database=None,
        deadline=None,
        derandomize=False,
        report_multiple_bugs=False,
        print_blob=False,
        phases=[Phase.generate, Phase.shrink],
        suppress_health_check=list(HealthCheck),
    )(test)
    test = hypothesis.seed(seed * 1000 + shard)(test)
    try:
        test()
    except Violation:
        pass
    except hypothesis.errors.Flaky as e:  # pragma: no cover
        stats.notes["flaky"] = str(e)[:500]
    if state["harness"]:
        stats.harness_error = state["harness"]


# ----------------------------------------------------------------------------
def run_property(prop_id, tier, seed):
    bootstrap()
    import importlib

    mod = importlib.import_module(f"props.{prop_id.lower()}")
    t0 = time.time()
    known = load_known(prop_id)
    open_known = [e for e in known if e.get("status") == "open"]
    violations = []
    lines = []

    # ---- replay tier: committed regression inputs -------------------------
    reg_stats = Stats()
    reg_dir = VERIF / "regress" / prop_id
    n_reg = 0
    known_seen = set()
    if reg_dir.is_dir():
        for f in sorted(reg_dir.glob("*.json")):
            doc = json.loads(f.read_text())
            case = doc["case"] if isinstance(doc, dict) and "case" in doc else doc
            n_reg += 1
            reg_stats.evaluations += 1
            try:
                obs = mod.check(case)
                reg_stats.observe(case, obs or {}, keep_sample=False)
            except Rejected:
                reg_stats.rejected += 1
            except Violation as v:
                hit = None
                for e in open_known:
                    if e.get("regress") and Path(e["regress"]).name == f.name and (
                        v.signature == e["signature"]
                        or re.fullmatch(e.get("signature_re", "$^"), v.signature)
                    ):
                        hit = e
                if hit:
                    known_seen.add(hit["key"])
                    lines.append(f"KNOWN-FINDING: property={prop_id} {hit['summary']}")
                else:
                    violations.append({"case": case, "signature": v.signature, "message": v.message, "source": str(f)})

    # ---- generated search, sharded ---------------------------------------
    bud = mod.budget(tier)
    nshards = int(os.environ.get("VERIF_SHARDS", bud.get("shards", 8)))
    tmp = Path(tempfile.mkdtemp(prefix="vp_run_", dir=scratch_root()))
    procs = []
    env = dict(os.environ)
    env["PYTHONHASHSEED"] = "0"
    env.setdefault("OMP_NUM_THREADS", "1")
    env.setdefault("OPENBLAS_NUM_THREADS", "1")
    env.setdefault("MKL_NUM_THREADS", "1")
    env.setdefault("NUMBA_NUM_THREADS", "1")
    for i in range(nshards):
        out = tmp / f"shard_{i}.json"
        log = open(tmp / f"shard_{i}.log", "w")
        p = subprocess.Popen(
            [sys.executable, str(HARNESS / "run.py"), prop_id, "--tier", tier, "--seed", str(seed),
             "--shard", f"{i}/{nshards}", "--out", str(out)],
            env=env, stdout=log, stderr=subprocess.STDOUT, cwd=str(VERIF),
        )
        procs.append((p, out, log, i))
    hard = float(os.environ.get("VERIF_HARD_TIMEOUT_S", bud.get("hard_s", bud.get("time_s", 60) * 4 + 600)))
    merged = Stats()
    harness_errors = []
    parts = []
    for p, out, log, i in procs:
        try:
            p.wait(timeout=max(1, hard - (time.time() - t0)))
        except subprocess.TimeoutExpired:
            p.kill()
            harness_errors.append(f"shard {i} exceeded hard timeout {hard}s")
        log.close()
        if out.exists():
            parts.append(json.loads(out.read_text()))
        else:
            tail = (tmp / f"shard_{i}.log").read_text()[-3000:]
            harness_errors.append(f"shard {i} wrote no result (rc={p.returncode}):\n{tail}")
    nontrivial = set(reg_stats.nontrivial)
    distinct = 0
    for part in parts:
        merged.evaluations += part["evaluations"]
        nontrivial |= set(part["nontrivial"])
        distinct += part["distinct"]
        merged.classes.update(part["classes"])
        merged.counters.update(part["counters"])
        for s in part["samples"]:
            if len(merged.samples) < 5:
                merged.samples.append(s)
        merged.rejected += part["rejected"]
        merged.rejected_reasons.update(part["rejected_reasons"])
        merged.excluded_known.update(part["excluded_known"])
        merged.skipped_budget += part["skipped_budget"]
        merged.enumerated += part["enumerated"]
        for k, v in part.get("notes", {}).items():
            merged.notes.setdefault(k, []).append(v)
        if part["failure"]:
            violations.append(part["failure"])
        if part["harness_error"]:
            harness_errors.append(part["harness_error"])
    shutil.rmtree(tmp, ignore_errors=True)

    # ---- cross-shard aggregation (statistical properties) ------------------
    if hasattr(mod, "aggregate") and not harness_errors:
        try:
            agg = mod.aggregate(tier, merged)
        except Violation as v:
            violations.append({"case": {"aggregate": True, "detail": v.message}, "signature": v.signature, "message": v.message})
            agg = None
        if agg:
            merged.notes["aggregate"] = agg

    # open known findings whose regression input no longer fails are simply not printed
    evaluations = merged.evaluations + reg_stats.evaluations
    total_rej = merged.rejected + reg_stats.rejected
    max_rej = getattr(mod, "MAX_REJECTED_FRACTION", 0.30)
    if not violations and not harness_errors and evaluations > 20 and total_rej > max_rej * evaluations:
        harness_errors.append(
            f"generator degenerate: {total_rej}/{evaluations} cases rejected: {dict(merged.rejected_reasons)}"
        )

    # ---- report -----------------------------------------------------------
    replay_paths = []
    seen_sig = set()
    for v in violations:
        if v["signature"] in seen_sig:
            continue
        seen_sig.add(v["signature"])
        rdir = VERIF / "replays" / prop_id
        rdir.mkdir(parents=True, exist_ok=True)
        rp = rdir / f"{case_hash(v['case'])}.json"
        rp.write_text(json.dumps({"property": prop_id, "signature": v["signature"], "message": v["message"],
                                  "case": v["case"]}, indent=1, default=str))
        replay_paths.append(rp)
        lines.append(f"VIOLATION property={prop_id} replay={rp}")
        lines.append(f"  signature={v['signature']} message={v['message'][:600]}")

    samples = merged.samples or reg_stats.samples
    if not samples and parts:
        samples = [{"note": "no non-trivial sample recorded"}]
    coverage = {
        "evaluations": evaluations,
        "distinct_nontrivial": len(nontrivial),
        "rule": mod.RULE,
        "samples": samples,
        "distinct_cases": distinct,
        "classes": dict(merged.classes),
        "sub_checks": dict(merged.counters),
        "rejected": total_rej,
        "rejected_reasons": dict(merged.rejected_reasons),
        "excluded_known": dict(merged.excluded_known),
        "known_findings_reproduced": sorted(known_seen),
        "regression_inputs": n_reg,
        "enumerated": merged.enumerated,
        "skipped_after_time_budget": merged.skipped_budget,
        "shards": nshards,
        "notes": merged.notes,
    }
    if hasattr(mod, "exhaustive_claim"):
        ex = mod.exhaustive_claim(tier)
        if ex and not merged.skipped_budget:
            coverage["exhaustive"] = True
            coverage["exhaustive_domain"] = ex
    evidence = {
        "property_id": prop_id,
        "tier": tier,
        "seed": int(seed),
        "level": mod.LEVEL,
        "coverage": coverage,
        "assumptions": list(mod.ASSUMPTIONS),
        "wall_s": round(time.time() - t0, 2),
        "violations": len(replay_paths),
        "technique": getattr(mod, "TECHNIQUE", ""),
        "repo": REPO,
    }
    if harness_errors:
        evidence["harness_errors"] = [h[-2000:] for h in harness_errors]
    if REPO == "/repo" or os.environ.get("VERIF_WRITE_EVIDENCE"):
        ev_dir = VERIF / "evidence"
        ev_dir.mkdir(exist_ok=True)
        (ev_dir / f"{prop_id}.json").write_text(json.dumps(evidence, indent=1, default=str))
    for ln in lines:
        print(ln)
    print(
        f"[{prop_id}] tier={tier} seed={seed} evaluations={evaluations} distinct_nontrivial={len(nontrivial)} "
        f"rejected={total_rej} excluded_known={sum(merged.excluded_known.values())} "
        f"skipped_budget={merged.skipped_budget} wall={evidence['wall_s']}s"
    )
    if replay_paths:
        return 1
    if harness_errors:
        print("HARNESS-ERROR", file=sys.stderr)
        for h in harness_errors:
            print(h[-3000:], file=sys.stderr)
        return 2
    return 0


def replay(prop_id, path):
    bootstrap()
    import importlib

    mod = importlib.import_module(f"props.{prop_id.lower()}")
    doc = json.loads(Path(path).read_text())
    case = doc["case"] if isinstance(doc, dict) and "case" in doc else doc
    try:
        obs = mod.check(case)
    except Rejected as r:
        print(f"[{prop_id}] replay rejected: {r}")
        return 0
    except Violation as v:
        print(f"VIOLATION property={prop_id} replay={path}")
        print(f"  signature={v.signature} message={v.message[:1500]}")
        return 1
    print(f"[{prop_id}] replay held: {obs}")
    return 0
