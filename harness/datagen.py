"""Table model + writers for PSM tables (PIN-like tsv / parquet) and dataset builders.

Structure (sizes, multiplicities, flags, layouts) is drawn by Hypothesis; the bulk
numeric content is a pure function of an integer `seed` drawn by Hypothesis
(numpy Generator seeded inside the case), so a case is reproducible from its JSON.
"""

from __future__ import annotations

from pathlib import Path

import numpy as np
import pandas as pd

AA = "ACDEFGHILMNPQSTVWY"

KEY_LAYOUTS = {
    1: ["ScanNr"],
    2: ["ScanNr", "ExpMass"],
    3: ["filename", "ScanNr", "ExpMass"],
    4: ["filename", "ScanNr", "ret_time", "ExpMass"],
}


def peptide_pool(rng, n, prefix=""):
    out, seen = [], set()
    while len(out) < n:
        L = int(rng.integers(6, 12))
        p = prefix + "".join(AA[int(i)] for i in rng.integers(0, len(AA), L)) + "K"
        if p not in seen:
            seen.add(p)
            out.append(p)
    return out


def psm_frame(
    seed,
    mults,
    key_arity=2,
    n_noise=2,
    sep=3.0,
    pi1=0.5,
    file_index=0,
    with_rid=True,
    n_peptides=None,
    shared_prefix_keys=False,
    label_enc="pm1",
    extra_levels=(),
    informative_sign=1.0,
    id_prefix="",
    twin=False,
    colliding_keys=False,
    near_keys=False,
    flag_feature=False,
    crossed_levels=False,
    targets_first=False,
):
    """Build a PSM table.  `mults` = list of spectrum multiplicities (rows per spectrum).

    Each spectrum gets a distinct full key; with `shared_prefix_keys` some spectra
    share the first two key columns and differ only in a later one.  Rows of a
    spectrum are scattered over the file (random permutation)."""
    rng = np.random.default_rng(seed)
    n = int(sum(mults))
    spec_of_row = np.repeat(np.arange(len(mults)), mults)
    perm = rng.permutation(n)
    spec_of_row = spec_of_row[perm]
    nspec = len(mults)
    # spectrum key fields
    scan = np.arange(1, nspec + 1) * 3 + 100 + 100_003 * file_index  # other spectrum keys (=> other fold hashes) per file
    fname = np.array(["run%d.mzML" % (i % 2) for i in range(nspec)], dtype=object)
    expmass = np.round(500.0 + rng.random(nspec) * 1500.0, 4)
    rt = np.round(rng.random(nspec) * 7200.0, 3)
    if shared_prefix_keys and nspec >= 4 and key_arity >= 3:
        # pairs of spectra agreeing on the first two key columns
        for a in range(0, nspec - 1, 4):
            b = a + 1
            scan[b] = scan[a]
            fname[b] = fname[a]
            if key_arity == 4:
                rt[b] = rt[a]  # 3 first columns equal, only ExpMass differs
    if colliding_keys and key_arity in (2, 3) and nspec >= 3:
        # pairs of distinct spectra whose key values read the same when written one after the other without a separator:
        # (scan 7, mass 1234.5) and (scan 71, mass 234.5)
        for a in range(0, nspec - 2, 4):
            b = a + 2
            d = 1 + (a // 4) % 9
            rem = float(np.round(100.0 + rng.random() * 899.0, 4))
            big = d * 1000.0 + rem
            if repr(big) == f"{d}{rem!r}":
                expmass[a], expmass[b] = big, rem
                scan[b] = scan[a] * 10 + d
                if key_arity == 3:
                    fname[b] = fname[a]
    if near_keys and key_arity >= 2 and nspec >= 4:
        # pairs of distinct spectra that agree on every key column except the measured mass, which differs in the 6th decimal
        for a in range(1, nspec - 2, 4):
            b = a + 2
            scan[b], fname[b], rt[b] = scan[a], fname[a], rt[a]
            expmass[b] = float(expmass[a]) + 3e-6
    is_target = rng.random(n) < 0.5
    # guarantee both classes
    if n >= 2:
        is_target[0] = True
        is_target[1] = False
    if targets_first:
        # file layout: all target PSMs listed ahead of the decoys (concatenated search results)
        o = np.argsort(~is_target, kind="stable")
        is_target, spec_of_row = is_target[o], spec_of_row[o]
    correct = is_target & (rng.random(n) < pi1)
    f0 = rng.normal(0.0, 1.0, n) + np.where(correct, sep, 0.0)
    f0 = f0 * informative_sign
    data = {}
    data["SpecId"] = np.array([f"{id_prefix}f{file_index}_r{i}" for i in range(n)], dtype=object)
    if label_enc == "pm1":
        data["Label"] = np.where(is_target, 1, -1)
    elif label_enc == "01":
        data["Label"] = np.where(is_target, 1, 0)
    else:
        data["Label"] = is_target.copy()
    data["ScanNr"] = scan[spec_of_row]
    key_cols = KEY_LAYOUTS[key_arity]
    if "ExpMass" in key_cols:
        data["ExpMass"] = expmass[spec_of_row]
    if "filename" in key_cols:
        data["filename"] = fname[spec_of_row]
    if "ret_time" in key_cols:
        data["ret_time"] = rt[spec_of_row]
    data["f0"] = f0
    for j in range(n_noise):
        data[f"f{j + 1}"] = rng.normal(0.0, 1.0, n)
    if twin and n_noise >= 1:
        # a second, comparably strong feature of the opposite orientation (p-value like)
        data["f1"] = -(rng.normal(0.0, 1.0, n) + np.where(correct, sep, 0.0)) * informative_sign
    if flag_feature and n_noise >= 1:
        # a two-valued indicator (e.g. "spectral library match") that marks nearly all correct targets and a few decoys:
        # the best single feature although it cannot order PSMs inside its two tie groups
        flag = correct & (rng.random(n) < 0.97)
        dec_idx = np.flatnonzero(~is_target)
        flag[dec_idx[: max(1, len(dec_idx) // 150)]] = True
        data["f1"] = flag.astype(float) * informative_sign
        data["f0"] = data["f0"] - np.where(correct, 0.6 * sep, 0.0) * informative_sign  # the continuous feature is the weaker one
    if with_rid:
        data["rid"] = (file_index * 1_000_000 + np.arange(n)).astype(float)
    npep = n_peptides or max(2, n // 2)
    tpool = peptide_pool(rng, npep)
    dpool = peptide_pool(rng, npep, prefix="")
    tp = rng.integers(0, npep, n)
    pep = np.array([tpool[i] if t else dpool[i][::-1] for i, t in zip(tp, is_target)], dtype=object)
    data["Peptide"] = pep
    if crossed_levels and extra_levels:
        # level columns that are not nested in each other but have the same number of distinct entities
        # (e.g. precursors vs. peptide groups defined independently): equally many rows per level, other rows
        kk = max(2, n // 3)
        for lv in extra_levels:
            assign = rng.permutation(n) % kk
            data[lv] = np.array([("grp_" if lv == "PeptideGroup" else lv[:3].lower() + "_") + "%d%s" % (a, "" if t else "d") for a, t in zip(assign, is_target)], dtype=object)
    for lv in (() if (crossed_levels and extra_levels) else extra_levels):
        if lv == "ModifiedPeptide":
            data[lv] = np.array([p + ("[+16]" if rng.random() < 0.4 else "") for p in pep], dtype=object)
        elif lv == "Precursor":
            data[lv] = np.array([p + "/%d" % rng.integers(2, 4) for p in pep], dtype=object)
        elif lv == "PeptideGroup":
            data[lv] = np.array(["grp_" + p[:3] for p in pep], dtype=object)  # prefix: "INF"/"NAN"/"NA" would be parsed as numbers by a text reader
    data["Proteins"] = np.array(
        [("sp|P%04d" % (i % 97)) if t else ("decoy_sp|P%04d" % (i % 97)) for i, t in zip(tp, is_target)], dtype=object
    )
    df = pd.DataFrame(data)
    meta = {
        "is_target": is_target,
        "spectrum": spec_of_row,
        "correct": correct,
        "key_cols": key_cols,
        "features": ["f0"] + [f"f{j + 1}" for j in range(n_noise)] + (["rid"] if with_rid else []),
        "levels": ["Peptide"] + list(extra_levels),
    }
    return df, meta


def _path_history(path: Path):
    """Another table lived at this path and was read through mokapot's reader before the real table is written:
    per-path state inside mokapot (caches keyed by file name) must not leak into the run under test."""
    try:
        from mokapot.tabular_data import TabularDataReader

        old = pd.DataFrame({"zz_old_id": ["a", "b", "c"], "zz_old_value": [1.5, 2.5, 3.5]})
        if path.suffix == ".parquet":
            old.to_parquet(path, index=False)
        else:
            old.to_csv(path, sep="\t", index=False)
        r = TabularDataReader.from_path(path)
        r.get_column_names(), r.get_column_types(), r.read()
        list(r.get_chunked_data_iterator(chunk_size=2))
    except Exception:  # noqa: BLE001  history only
        pass


def write_table(df, path: Path, row_group=None, history=True):
    path = Path(path)
    if history and not path.exists():
        _path_history(path)
    if path.suffix == ".parquet":
        import pyarrow as pa
        import pyarrow.parquet as pq

        table = pa.Table.from_pandas(df, preserve_index=False)
        pq.write_table(table, path, row_group_size=row_group or max(1, len(df)))
    else:
        df.to_csv(path, sep="\t", index=False)
    return path


def build_ondisk(path: Path, df, meta, feature_columns=None, spectrum_columns=None, raw_labels=False, own_index=False):
    """Construct an OnDiskPsmDataset directly, exactly like tests/conftest.py does
    (independent of the PIN parser)."""
    from mokapot.dataset import OnDiskPsmDataset
    from mokapot.tabular_data import TabularDataReader

    path = Path(path)
    columns = list(df.columns)
    spectrum_columns = list(spectrum_columns or meta["key_cols"])
    feature_columns = list(feature_columns or meta["features"])
    metadata_columns = ["SpecId", "ScanNr", "Peptide", "Proteins", "Label"]
    metadata_columns += [c for c in meta["levels"] if c != "Peptide"]
    for c in ("filename", "ExpMass", "ret_time"):
        if c in columns and c not in metadata_columns:
            metadata_columns.append(c)
    col_types = TabularDataReader.from_path(path).get_column_types()
    all_cols = TabularDataReader.from_path(path).get_column_names()
    if list(all_cols) != list(df.columns):
        from core import Violation

        raise Violation("reader-column-names", f"mokapot's reader reports columns {list(all_cols)[:6]}... for a file whose header is "
                                               f"{list(df.columns)[:6]}... (stale per-path state?)")
    metadata_column_types = [col_types[all_cols.index(c)] for c in metadata_columns]
    spectra_df = df[spectrum_columns + ["Label"]].copy()
    lab = spectra_df["Label"]
    if not raw_labels:  # read_pin stores converted booleans; tests/conftest.py keeps the raw file values
        spectra_df["Label"] = (lab == 1) if lab.dtype != bool else lab
    spectra_df = spectra_df.reset_index(drop=True)
    if own_index:
        # rows in file order but with labels of their own (a frame assembled with concat / filtered / sorted by the caller)
        n_ = len(spectra_df)
        spectra_df.index = pd.Index([(7 * i + 3) % n_ if n_ % 7 else n_ - 1 - i for i in range(n_)])
    return OnDiskPsmDataset(
        filename=path,
        columns=columns,
        target_column="Label",
        spectrum_columns=spectrum_columns,
        peptide_column="Peptide",
        protein_column="Proteins",
        feature_columns=feature_columns,
        metadata_columns=metadata_columns,
        metadata_column_types=metadata_column_types,
        level_columns=list(meta["levels"]),
        filename_column="filename" if "filename" in columns else None,
        scan_column="ScanNr",
        specId_column="SpecId",
        calcmass_column=None,
        expmass_column="ExpMass" if "ExpMass" in columns else None,
        rt_column="ret_time" if "ret_time" in columns else None,
        charge_column=None,
        spectra_dataframe=spectra_df,
    )


def draw_mults(draw, st, n_spectra_range, max_mult):
    """Hypothesis helper: a list of spectrum multiplicities."""
    ns = draw(st.integers(*n_spectra_range))
    style = draw(st.sampled_from(["ones", "mixed", "heavy"]))
    if style == "ones" or max_mult == 1:
        base = [1] * ns
        # still a few duplicates so that spectra matter
        k = draw(st.integers(0, min(5, ns)))
        for i in range(k):
            base[i] = draw(st.integers(1, max_mult))
        return base
    if style == "heavy":
        return [draw(st.integers(max(1, max_mult - 1), max_mult)) if i % 3 == 0 else 1 for i in range(ns)]
    seed = draw(st.integers(0, 2**20))
    rng = np.random.default_rng(seed)
    return [int(x) for x in rng.integers(1, max_mult + 1, ns)]


def read_result(path):
    """Read a mokapot result text file with exact float parsing."""
    return pd.read_csv(path, sep="\t", float_precision="round_trip")
