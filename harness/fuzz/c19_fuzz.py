#!/venv/bin/python
"""atheris target for C19: bytes -> structured PIN case -> same oracle as the Hypothesis check."""
import json
import os
import sys
from pathlib import Path

HERE = Path(__file__).resolve().parent.parent
sys.path.insert(0, str(HERE))
import core  # noqa: E402

core.bootstrap()
import atheris  # noqa: E402

with atheris.instrument_imports(include=["mokapot.parsers.pin_to_tsv"]):
    from mokapot.parsers import pin_to_tsv  # noqa: F401

from props import c19  # noqa: E402

ALPHA = c19.TOKEN_ALPHABET


def tok(fdp):
    n = fdp.ConsumeIntInRange(1, 6)
    return "".join(ALPHA[fdp.ConsumeIntInRange(0, len(ALPHA) - 1)] for _ in range(n))


def decode(data):
    fdp = atheris.FuzzedDataProvider(data)
    nfeat = fdp.ConsumeIntInRange(0, 6)
    base = ["SpecId", "Label", "ScanNr"] + [tok(fdp) for _ in range(nfeat)] + ["Peptide"]
    pos = len(base) if fdp.ConsumeBool() else fdp.ConsumeIntInRange(0, len(base))
    rows = []
    for _ in range(fdp.ConsumeIntInRange(1, 6)):
        rows.append({"fields": [tok(fdp) for _ in base], "proteins": [tok(fdp) for _ in range(fdp.ConsumeIntInRange(1, 4))]})
    dd = None
    if fdp.ConsumeIntInRange(0, 3) == 0:
        dd = ["DefaultDirection"] + [tok(fdp) for _ in range(fdp.ConsumeIntInRange(0, len(base) + 2))]
    return {"kind": "pin", "base": base, "pos": pos, "rows": rows, "dd": dd, "final_newline": fdp.ConsumeBool()}


def TestOneInput(data):
    case = decode(data)
    try:
        c19.check(case)
    except core.Violation as v:
        Path(os.environ["C19_FAIL_FILE"]).write_text(json.dumps({"case": case, "signature": v.signature, "message": v.message}))
        raise


atheris.Setup(sys.argv, TestOneInput)
atheris.Fuzz()
