#!/usr/bin/env python3
"""keep_seed.py <PROP> <LETTER> <caught-by signature or 'MISSED'> <needs...>  : copy a confirmed seeded change into /verif/seeded/"""
import json, shutil, sys
from pathlib import Path
prop, letter, caught = sys.argv[1:4]
needs = " ".join(sys.argv[4:])
letter2 = {"A": "M", "B": "N"}[letter]
src = Path(f"/tmp/seed_out7/{prop}/{letter}")
dst = Path(f"/verif/seeded/{prop}-{letter2}")
dst.mkdir(parents=True, exist_ok=True)
for f in ("patch.diff", "demo.py", "notes.md"):
    if (src / f).exists():
        shutil.copy(src / f, dst / f)
meta = {
    "id": f"{prop}-{letter2}", "round": 7,
    "property": prop,
    "origin": "independent sub-agent given only the property text and a scratch worktree",
    "needs_to_manifest": needs,
    "confirmed": {
        "how": "harness/seedtest.sh: scratch copy of /repo under /dev/shm, demo.py exit 0 on the clean copy and exit 1 with patch.diff applied; sub-agent reported identical pytest outcome lists (120 passed / 19 failed / 23 error lines; outcomes.sh prints SAME) with and without the patch",
        "check_cmd": f"VERIF_REPO=<patched copy> /venv/bin/python harness/run.py {prop} --tier quick",
        "check_result": caught,
    },
}
(dst / "meta.json").write_text(json.dumps(meta, indent=1) + "\n")
print("kept", dst)
