#!/usr/bin/env python3
"""keep_seed.py <PROP> <LETTER> <caught-by signature or 'MISSED'> <needs...>  : copy a confirmed seeded change into /verif/seeded/"""
import json, shutil, sys
from pathlib import Path
prop, letter, caught = sys.argv[1:4]
needs = " ".join(sys.argv[4:])
letter2 = {"A": "O", "B": "P"}[letter]
src = Path(f"/tmp/seed_out8/{prop}/{letter}")
dst = Path(f"/verif/seeded/{prop}-{letter2}")
dst.mkdir(parents=True, exist_ok=True)
for f in ("patch.diff", "demo.py", "notes.md"):
    if (src / f).exists():
        shutil.copy(src / f, dst / f)
meta = {
    "id": f"{prop}-{letter2}", "round": 8,
    "property": prop,
    "origin": "independent sub-agent given only the property text and a scratch worktree",
    "needs_to_manifest": needs,
    "confirmed": {
        "how": "harness/confirm_seed.sh in a scratch git worktree of /repo HEAD under /tmp (removed afterwards): demo.py exit 0 on the clean tree, exit 1 with patch.diff applied, pytest outcome list with the patch identical to the clean tree (120 passed / 19 failed / 10 errors)",
        "check_cmd": f"VERIF_REPO=<patched copy> /venv/bin/python harness/run.py {prop} --tier quick",
        "check_result": caught,
    },
}
(dst / "meta.json").write_text(json.dumps(meta, indent=1) + "\n")
print("kept", dst)
