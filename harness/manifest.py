#!/venv/bin/python
"""Regenerate /verif/MANIFEST.json from the property modules that exist."""
import importlib
import json
import sys
from pathlib import Path

HERE = Path(__file__).resolve().parent
VERIF = HERE.parent
sys.path.insert(0, str(HERE))
import core  # noqa: E402

core.bootstrap()
ALL = [f"C{i:02d}" for i in range(1, 21)]
PY = "/venv/bin/python"
checks, na = [], []
for pid in ALL:
    f = HERE / "props" / f"{pid.lower()}.py"
    if not f.exists():
        na.append({"property_id": pid, "reason": "no check registered yet: harness module not built at this commit (planned, see DESIGN.md section 4)"})
        continue
    mod = importlib.import_module(f"props.{pid.lower()}")
    checks.append({
        "property_id": pid,
        "quick_cmd": f"{PY} harness/run.py {pid} --tier quick",
        "thorough_cmd": f"{PY} harness/run.py {pid} --tier thorough",
        "evidence_file": f"/verif/evidence/{pid}.json",
        "replay_cmd_template": f"{PY} harness/run.py {pid} --replay {{path}}",
        "engine": "harness",
        "level_claimed": {
            "category": mod.LEVEL,
            "text": getattr(mod, "LEVEL_TEXT", "Held on every generated case of the stated domain; generated-input search against an explicit oracle, not a proof."),
            "design_ref": f"DESIGN.md section 4, {pid}",
        },
        "level_note": "; ".join(mod.ASSUMPTIONS),
        "technique": mod.TECHNIQUE,
    })
man = {
    "version": 1,
    "setup_cmd": f"{PY} harness/setup.py",
    "hooks": {
        "guard": core.GUARD,
        "enable": "no source hooks are needed: checks import /repo's working tree directly (pure Python) and observe through public arguments; MOKAPOT_VERIF=1 is exported by the harness for completeness",
        "baseline_off_cmd": "cd /repo && /venv/bin/python -m pytest -ra -q -p no:cacheprovider --timeout=900 --continue-on-collection-errors",
        "source_commits": [],
        "add_only": True,
    },
    "engines": [{
        "name": "harness",
        "path": "harness/run.py",
        "serves_properties": [c["property_id"] for c in checks],
        "kind_free_text": "Hypothesis property-based testing (strategies, rule-based state machines), exhaustive enumeration of small finite sub-domains, fault-point enumeration, atheris coverage-guided fuzzing; sharded over 16 processes",
    }],
    "checks": checks,
    "not_applicable": na,
    "notes": "Every check: exit 0 held / 1 VIOLATION line with replay file / 2 harness error. VERIF_SEED selects the Hypothesis seeds; VERIF_REPO may point the same check at a scratch copy (mutation runs).",
}
(VERIF / "MANIFEST.json").write_text(json.dumps(man, indent=1) + "\n")
try:
    import jsonschema
    jsonschema.validate(man, json.load(open("/root/.vp/MANIFEST.schema.json")))
    print("manifest valid;", len(checks), "checks,", len(na), "not applicable")
except ImportError:
    print("manifest written (jsonschema not available)")
