#!/usr/bin/env python3
"""Sensitivity runs: apply one small breaking change at a time to a scratch copy of /repo (never /repo itself),
run the property's quick check against it with VERIF_REPO, record caught / missed.

usage: mutants.py [name-substring ...]      results -> /verif/sensitivity/mutants.json
"""
import json
import os
import shutil
import subprocess
import sys
import time
from pathlib import Path

VERIF = Path(__file__).resolve().parent.parent
M = [
    # (name, property, file, old, new)
    ("c01-drop-plus-one", "C01", "mokapot/qvalues.py", "(cum_decoys + 1),", "(cum_decoys),"),
    ("c01-zero-target-guard", "C01", "mokapot/qvalues.py", "where=(cum_targets != 0),", "where=(cum_targets > 1),"),
    ("c01-group-start", "C01", "mokapot/qvalues.py", "curr_fdr = fdr_group[np.argmax(n_group)]", "curr_fdr = fdr_group[np.argmin(n_group)]"),
    ("c01-input-order", "C01", "mokapot/qvalues.py", "    qvals = qvals[np.argsort(srt_idx)]\n", ""),
    ("c01-labels-ge", "C01", "mokapot/dataset.py", "unlabeled = np.logical_and(qvals > eval_fdr, targets)", "unlabeled = np.logical_and(qvals >= eval_fdr, targets)"),
    ("c01-float-labels", "C01", "mokapot/qvalues.py", "        like_zero = target == np.zeros_like(target)\n        if np.all(like_one | like_zero):", "        like_zero = target == np.zeros_like(target)\n        if np.all(like_one):"),
    ("c02-model-shift", "C02", "mokapot/brew.py", "                    model=models[mod_idx],\n", "                    model=models[(mod_idx + 1) % len(models)],\n"),
    ("c02-train-on-all", "C02", "mokapot/brew.py", "            train_idx[file_idx] += list(set(range(k, ds)) - set(idx))", "            train_idx[file_idx] += list(set(range(k, ds)))"),
    ("c02-split-mid-group", "C02", "mokapot/dataset.py", "        idx_split = idx_start_unique[\n            np.searchsorted(idx_start_unique, start_split_indices)\n        ]", "        idx_split = np.array(start_split_indices)"),
    ("c02-orig-idx", "C02", "mokapot/brew.py", "        yield np.concatenate(scores)[orig_idx]", "        yield np.concatenate(scores)"),
    ("c03-keep-worst", "C03", "mokapot/confidence.py", '    chunk_metadata.sort_values(by="score", ascending=False, inplace=True)', '    chunk_metadata.sort_values(by="score", ascending=True, inplace=True)'),
    ("c03-continue-at-psm", "C03", "mokapot/confidence.py", '                            if level == "psms":\n                                break\n', ""),
    ("c03-swap-target-decoy", "C03", "mokapot/confidence_writer.py", "            data_out.append(data_chunk.loc[targets_chunk, out_columns])\n            if decoys:\n                data_out.append(data_chunk.loc[~targets_chunk, out_columns])", "            data_out.append(data_chunk.loc[~targets_chunk, out_columns])\n            if decoys:\n                data_out.append(data_chunk.loc[targets_chunk, out_columns])"),
    ("c03-rollup-tool-seen", "C03", "mokapot/brew_rollup.py", "                if id not in seen:\n                    seen.add(id)", "                if id not in seen:\n                    pass"),
    ("c05-parquet-index", "C05", "mokapot/tabular_data.py", "            df.index = df.index + i * chunk_size\n", ""),
    ("c05-reindex-dropped", "C05", "mokapot/parsers/pin.py", "        pd.concat(df_fold).reindex(orig_idx_fold)", "        pd.concat(df_fold)"),
    ("c05-score-slices", "C05", "mokapot/confidence.py", "    scores_slices = create_chunks(score, chunk_size=CONFIDENCE_CHUNK_SIZE)", "    scores_slices = create_chunks(score, chunk_size=CONFIDENCE_CHUNK_SIZE + 1)"),
    ("c06-clip-removed", "C06", "mokapot/peps.py", "    return np.clip(np.interp(scores, eval_scores, pep_est), 0, 1)\n\n\ndef peps_from_scores_hist_direct", "    return np.interp(scores, eval_scores, pep_est) * 1.2\n\n\ndef peps_from_scores_hist_direct"),
    ("c06-kde-direction", "C06", "mokapot/peps.py", "    pepEst = monotonize_nnls(pepEst, w=target_pdf, ascending=False)", "    pepEst = monotonize_nnls(pepEst, w=target_pdf, ascending=True)"),
    ("c07-ge-instead-gt", "C07", "mokapot/brew.py", "    if feat_total > pred_total:", "    if feat_total > pred_total + 10**9:"),
    ("c07-first-model-feat", "C07", "mokapot/brew.py", "        feat, _, desc = best_feats[best_feat_idx]", "        feat, _, desc = best_feats[0][0], None, True"),
    ("c08-unseeded-split", "C08", "mokapot/brew.py", "    test_folds_idx = [_psms._split(folds, rng) for _psms in psms]", "    test_folds_idx = [_psms._split(folds, np.random.default_rng()) for _psms in psms]"),
    ("c08-groupby-unseeded", "C08", "mokapot/utils.py", "        df.sample(frac=1, random_state=rng)", "        df.sample(frac=1)"),
    ("c09-level-not-unlinked", "C09", "mokapot/confidence.py", "            os.unlink(data_path)\n", ""),
    ("c09-chunks-not-unlinked", "C09", "mokapot/confidence.py", "                sc_path.unlink()\n", "                pass\n"),
    ("c10-case-sensitive", "C10", "mokapot/parsers/helpers.py", "            return str1.lower() == str2.lower()", "            return str1 in (str2, str2.capitalize(), str2.upper(), str2.lower())"),
    ("c10-truthy-labels", "C10", "mokapot/utils.py", "    data[target_column] = labels == 1", "    data[target_column] = labels != 0"),
    ("c10-nan-kept", "C10", "mokapot/parsers/pin.py", "    if na_mask.any():\n        return list(na_mask[na_mask].index)", "    if na_mask.all():\n        return list(na_mask[na_mask].index)"),
    ("c11-anchor-max", "C11", "mokapot/dataset.py", "    target_score = np.min(scores[pos])\n    decoy_score = np.median(scores[labels == -1])\n\n    return (scores - target_score) / (target_score - decoy_score)\n\n\n@typechecked", "    target_score = np.max(scores[pos])\n    decoy_score = np.median(scores[labels == -1])\n\n    return (scores - target_score) / (target_score - decoy_score)\n\n\n@typechecked"),
    ("c11-sign", "C11", "mokapot/dataset.py", "    return (scores - target_score) / (target_score - decoy_score)\n\n\n@typechecked", "    return (scores - target_score) / (decoy_score - target_score)\n\n\n@typechecked"),
    ("c12-values-before-loc", "C12", "mokapot/model.py", "            psms.features.loc[:, self.features].values", "            psms.features.values"),
    ("c12-labels-not-reshuffled", "C12", "mokapot/model.py", "            target = target[shuffled_idx]\n", ""),
    ("c13-chunk-off-by-one", "C13", "mokapot/tabular_data.py", "        for pos in range(0, len(self.df), chunk_size):", "        for pos in range(0, len(self.df) - 1, chunk_size):"),
    ("c13-no-forced-flush", "C13", "mokapot/tabular_data.py", "        self._write_buffer(force=True)\n", "        self._write_buffer()\n"),
    ("c14-ties-reemit", "C14", "mokapot/utils.py", "        if max_score is None or max_score < score:", "        if max_score is None or max_score <= score:"),
    ("c14-wrong-direction-check", "C14", "mokapot/streaming.py", "                if self.descending and new_value > values[iterator_index]:", "                if self.descending and new_value > values[0]:"),
    ("c15-keep-first", "C15", "mokapot/utils.py", '        .drop_duplicates(list(by_cols), keep="last")', '        .drop_duplicates(list(by_cols), keep="first")'),
    ("c15-strip-eats-residue", "C15", "mokapot/picked_protein.py", 'sequences.str.replace(r"[\\[\\(].*?[\\]\\)]", "", regex=True)', 'sequences.str.replace(r".[\\[\\(].*?[\\]\\)]", "", regex=True)'),
    ("c16-remove-skipped", "C16", "mokapot/parsers/fasta.py", "                if prot in peptides[pep]:\n                    peptides[pep].remove(prot)\n", ""),
    ("c16-first-match-only", "C16", "mokapot/parsers/fasta.py", "        for match in matches:\n            new_prot", "        for match in matches[:1]:\n            new_prot"),
    ("c17-missed-range", "C17", "mokapot/parsers/fasta.py", "        for diff_idx in range(1, missed_cleavages + 2):", "        for diff_idx in range(1, missed_cleavages + 1):"),
    ("c17-site-at-start", "C17", "mokapot/parsers/fasta.py", "        + [m.end() for m in enzyme_regex.finditer(sequence)]", "        + [m.start() for m in enzyme_regex.finditer(sequence)]"),
    ("c17-bound", "C17", "mokapot/parsers/fasta.py", "            if len(peptide) < min_length or len(peptide) > max_length:", "            if len(peptide) <= min_length or len(peptide) > max_length:"),
    ("c18-terminal-moved", "C18", "mokapot/parsers/fasta.py", "            end = sites[end_idx] - 1\n", "            end = sites[end_idx]\n"),
    ("c18-wrap-drops", "C18", "mokapot/parsers/fasta.py", '        seq = "\\n".join(wrap(seq))', '        seq = "\\n".join(wrap(seq, width=70, max_lines=40))'),
    ("c19-prot-end", "C19", "mokapot/parsers/pin_to_tsv.py", "    idx_prot_end = idx_protein_col + n_proteins + 1", "    idx_prot_end = idx_protein_col + n_proteins"),
    ("c19-dd-kept", "C19", "mokapot/parsers/pin_to_tsv.py", '    if not second_line.startswith("DefaultDirection"):', '    if True:'),
    ("c20-offset", "C20", "mokapot/parsers/pepxml.py", "                offset += 2 + len(mass)", "                offset += 2"),
    ("c20-alt-dropped", "C20", "mokapot/parsers/pepxml.py", '            psm["proteins"].append(element.get("protein").split(" ")[0])', '            pass'),
    ("c20-first-run-name", "C20", "mokapot/parsers/pepxml.py", "    if not ms_data_file.endswith(run_ext):\n        ms_data_file += run_ext", "    if not ms_data_file.endswith(run_ext):\n        ms_data_file += '.mzML'"),
    ("c04-decoys-dropped", "C04", "mokapot/brew.py", "            train_idx[file_idx] += list(set(range(k, ds)) - set(idx))", "            train_idx[file_idx] += list(set(range(k, ds)) - set(idx[: len(idx) // 2]))"),
]


def main():
    want = sys.argv[1:]
    out_dir = VERIF / "sensitivity"
    out_dir.mkdir(exist_ok=True)
    res_path = out_dir / "mutants.json"
    results = json.loads(res_path.read_text()) if res_path.exists() else {}
    for name, prop, file, old, new in M:
        if want and not any(w in name for w in want):
            continue
        scr = Path(f"/dev/shm/vp_mut_{os.getpid()}")
        shutil.rmtree(scr, ignore_errors=True)
        scr.mkdir(parents=True)
        subprocess.check_call(["rsync", "-a", "--exclude", ".git", "--exclude", "data", "--exclude", "docs", "/repo/", str(scr / "repo") + "/"])
        f = scr / "repo" / file
        s = f.read_text()
        if old not in s:
            results[name] = {"property": prop, "status": "pattern-not-found"}
            print(name, "PATTERN NOT FOUND")
            shutil.rmtree(scr, ignore_errors=True)
            continue
        f.write_text(s.replace(old, new, 1))
        t0 = time.time()
        env = dict(os.environ, VERIF_REPO=str(scr / "repo"))
        p = subprocess.run(["/venv/bin/python", str(VERIF / "harness" / "run.py"), prop, "--tier", "quick"], env=env, capture_output=True, text=True, cwd=str(VERIF))
        sig = ""
        for ln in p.stdout.splitlines():
            if ln.strip().startswith("signature="):
                sig = ln.strip().split(" ")[0].split("=", 1)[1]
                break
        status = {0: "MISSED", 1: "caught", 2: "harness-error"}.get(p.returncode, str(p.returncode))
        results[name] = {"property": prop, "file": file, "status": status, "signature": sig, "wall_s": round(time.time() - t0, 1)}
        print(f"{name:32s} {prop} {status:14s} {sig[:60]}  {results[name]['wall_s']}s", flush=True)
        shutil.rmtree(scr, ignore_errors=True)
        res_path.write_text(json.dumps(results, indent=1, sort_keys=True) + "\n")


if __name__ == "__main__":
    main()
