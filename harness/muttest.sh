#!/bin/bash
# usage: muttest.sh <PROP> <file-relative-to-repo> <python-expr old> <new> [tier]   (literal string replace, first occurrence)
set -u
PROP=$1; FILE=$2; OLD=$3; NEW=$4; TIER=${5:-quick}
SCR=/dev/shm/vp_mut_$$
mkdir -p $SCR
rsync -a --exclude .git --exclude data --exclude docs /repo/ $SCR/repo/
python3 - "$SCR/repo/$FILE" "$OLD" "$NEW" <<'PY'
import sys
p,old,new=sys.argv[1:4]
s=open(p).read()
assert old in s, "pattern not found"
open(p,'w').write(s.replace(old,new,1))
PY
if [ $? -ne 0 ]; then rm -rf $SCR; exit 3; fi
cd /verif
VERIF_REPO=$SCR/repo /venv/bin/python harness/run.py $PROP --tier $TIER | grep -E "VIOLATION|signature|^\[" | cut -c1-300
echo "check rc=${PIPESTATUS[0]}"
rm -rf $SCR
