"""C01 - TDC q-values equal the defining formula; training labels follow them."""

from __future__ import annotations

import itertools

import numpy as np
from hypothesis import strategies as st

from core import Violation, guarded, require
from refs import labels_ref, tdc_ref

ID = "C01"
LEVEL = "exploration"
LEVEL_TEXT = (
    "Exact agreement with a rational-arithmetic reference of the defining formula on every weak ordering x labelling x direction of n<=4 (quick) / n<=6 (thorough), exhaustively, plus thousands of generated larger vectors over all dtypes; metamorphic rescaling and label rules on the same cases. Exploration, not a proof for arbitrary n."
)
TECHNIQUE = (
    "Hypothesis-generated weak orderings x labellings x dtypes x directions, plus exhaustive enumeration of "
    "all weak orderings of small n, against an exact rational reference of the defining formula"
)
RULE = (
    "case = (rank vector = weak ordering, label vector, value table kind, score dtype, label dtype, direction, "
    "eval_fdr); scores = strictly increasing table[ranks]. Enumerated part: every weak ordering of n<=4 (quick) / "
    "n<=6 (thorough) x every labelling x both directions. Non-trivial: n>=3, both labels present and (a tie group "
    "of size>=2 or a decoy ranked strictly better than some target). Distinct = distinct canonical JSON of the case. "
    "Half of the full cases also build a LinearPsmDataset (every fourth of those an OnDiskPsmDataset on a Parquet file, "
    "labels stored as 0/1 or -1/1) with features {scores, rescaled scores, negated scores, constant} in one of four "
    "asymmetric subsets and check the starting labels returned by (_)find_best_feature."
)
ASSUMPTIONS = [
    "float32 storage of the FDR inside tdc is the only admitted deviation: |q - exact| <= 2.5e-7 * exact",
    "integer score dtypes are restricted to |v| < 2**24 (tdc casts integers to float32)",
    "labels whose exact q-value is within 3e-7 relative of eval_fdr may take either value (float32 rounding)",
]

FLOAT_KINDS = ["lin", "ulp", "exp", "neg", "tiny", "ulpneg"]
SDTYPES = ["float64", "float32", "int8", "int16", "int32", "int64", "uint8", "uint16", "uint32"]
LDTYPES = ["bool", "int8", "int64", "uint8", "float32", "float64"]
FDRS = [0.01, 0.05, 0.1, 0.25, 0.5, 1.0]


def budget(tier):
    if tier == "quick":
        return {"examples": 6000, "shards": 8, "time_s": 40}
    return {"examples": 240000, "shards": 16, "time_s": 600}


# ---------------------------------------------------------------------------
def value_table(k, kind, dtype):
    """Strictly increasing table of k numbers of the requested dtype."""
    dt = np.dtype(dtype)
    if dt.kind in "iu":
        info = np.iinfo(dt)
        lo = max(info.min, -(2**23))
        hi = min(info.max, 2**23)
        if kind in ("neg", "ulpneg") and info.min < 0:
            start = max(lo, -k - 3)
        elif kind in ("exp",):
            start = hi - k  # top of the range
        elif kind in ("tiny",):
            start = lo
        else:
            start = max(lo, -(k // 2))
        start = min(start, hi - k)
        vals = np.arange(start, start + k, dtype=np.int64)
        assert vals.min() >= info.min and vals.max() <= info.max
        return vals.astype(dt)
    if dt == np.float32:
        if kind in ("ulp", "ulpneg"):
            base = np.float32(-1.0 if kind == "ulpneg" else 1.0)
            out = [base]
            for _ in range(k - 1):
                out.append(np.nextafter(out[-1], np.float32(np.inf), dtype=np.float32))
            return np.array(out, dtype=np.float32)
        if kind == "neg":
            return (np.arange(k, dtype=np.float32) * np.float32(0.5) - np.float32(k)).astype(np.float32)
        if kind == "exp":
            half = k // 2
            e = np.minimum(np.abs(np.arange(k) - half), 37) + (np.abs(np.arange(k) - half) / 1000.0)
            v = np.sign(np.arange(k) - half) * (10.0**e)
            v = v.astype(np.float32)
            if len(np.unique(v)) == k and np.all(np.diff(v) > 0):
                return v
        return (np.arange(k, dtype=np.float32) * np.float32(0.25) - np.float32(k) / 8).astype(np.float32)
    # float64
    if kind == "ulp" or kind == "ulpneg":
        base = -1.0 if kind == "ulpneg" else 1.0
        out = [base]
        for _ in range(k - 1):
            out.append(float(np.nextafter(out[-1], np.inf)))
        return np.array(out, dtype=np.float64)
    if kind == "exp":
        half = k // 2
        i = np.arange(k) - half
        return (np.sign(i) * 10.0 ** np.abs(i).astype(float)).astype(np.float64) if half <= 300 else np.arange(k, dtype=float)
    if kind == "neg":
        return np.arange(k, dtype=np.float64) * 0.37 - 0.37 * k - 1.0
    if kind == "tiny":
        return np.arange(1, k + 1, dtype=np.float64) * 5e-324
    return np.arange(k, dtype=np.float64) * 0.75 - k / 2.0


def render_labels(labels, ldtype):
    arr = np.array(labels, dtype=bool)
    if ldtype == "bool":
        return arr
    return arr.astype(ldtype)


@st.composite
def _case(draw, nmax):
    sdtype = draw(st.sampled_from(SDTYPES))
    n = draw(st.integers(1, nmax))
    kmax = n
    if sdtype in ("int8", "uint8"):
        kmax = min(n, 120)
    k = draw(st.integers(1, kmax))
    style = draw(st.sampled_from(["free", "free", "toptie", "bottomtie", "decoyprefix"]))
    ranks = draw(st.lists(st.integers(0, k - 1), min_size=n, max_size=n))
    labels = draw(st.lists(st.booleans(), min_size=n, max_size=n))
    if style == "toptie" and n >= 2:
        m = draw(st.integers(2, n))
        top = max(ranks)
        ranks = [top if i < m else r for i, r in enumerate(ranks)]
    elif style == "bottomtie" and n >= 2:
        m = draw(st.integers(2, n))
        bot = min(ranks)
        ranks = [bot if i < m else r for i, r in enumerate(ranks)]
    elif style == "decoyprefix":
        top = max(ranks)
        labels = [False if r == top else l for r, l in zip(ranks, labels)]
    # compress ranks to 0..k'-1 so that the table has no unused entries
    uniq = sorted(set(ranks))
    remap = {r: i for i, r in enumerate(uniq)}
    ranks = [remap[r] for r in ranks]
    perm_seed = draw(st.integers(0, 2**16))
    return {
        "ranks": ranks,
        "labels": labels,
        "kind": draw(st.sampled_from(FLOAT_KINDS)),
        "kind2": draw(st.sampled_from(FLOAT_KINDS)),
        "sdtype": sdtype,
        "ldtype": draw(st.sampled_from(LDTYPES)),
        "desc": draw(st.booleans()),
        "fdr": draw(st.integers(0, len(FDRS) + 2)),
        "fdr_nudge": draw(st.integers(0, 3)),
        "perm": perm_seed,
        "mode": "full",
    }


def strategy(tier):
    return _case(64 if tier == "quick" else 400)


def _weak_orderings(n):
    for r in itertools.product(range(n), repeat=n):
        k = max(r) + 1
        if len(set(r)) == k:
            yield r


def enumerate_cases(tier):
    nmax = 4 if tier == "quick" else 6
    for n in range(1, nmax + 1):
        for r in _weak_orderings(n):
            for lab in itertools.product((False, True), repeat=n):
                for desc in (True, False):
                    yield {"ranks": list(r), "labels": list(lab), "kind": "lin", "kind2": "ulp", "sdtype": "float64",
                           "ldtype": "bool", "desc": desc, "fdr": (sum(r) + sum(lab)) % (len(FDRS) + 3), "fdr_nudge": (sum(r) + 2 * sum(lab)) % 4, "perm": 0,
                           "mode": "light"}


def exhaustive_claim(tier):
    nmax = 4 if tier == "quick" else 6
    return f"all weak orderings of n<={nmax} x all labellings x both directions (in addition to the random search)"


# ---------------------------------------------------------------------------
def _check_q(q, ref, scores_py, desc, tag):
    n = len(ref)
    require(isinstance(q, np.ndarray) and q.shape == (n,), f"shape:{tag}", f"returned shape {getattr(q, 'shape', None)} for n={n}")
    require(bool(np.all(np.isfinite(q))), f"nonfinite:{tag}", str(q))
    for i in range(n):
        r = float(ref[i])
        if abs(float(q[i]) - r) > 2.5e-7 * r:
            # name what broke
            raise Violation(
                f"formula:{tag}",
                f"q[{i}]={float(q[i])!r} but defining formula gives {ref[i]} (={r!r}); "
                f"scores={scores_py[:12]} desc={desc}",
            )
    require(bool(np.all(q > 0) and np.all(q <= 1)), f"range:{tag}", str(q))
    order = sorted(range(n), key=lambda i: -scores_py[i] if desc else scores_py[i])
    for a, b in zip(order, order[1:]):
        if scores_py[a] == scores_py[b]:
            require(q[a] == q[b], f"ties:{tag}", f"tied scores, q {q[a]} vs {q[b]}")
        else:
            require(q[a] <= q[b], f"monotone:{tag}", f"q decreases as score worsens: {q[a]} -> {q[b]}")


def _check_labels(got, labels, exp, amb, tag, what):
    n = len(labels)
    require(isinstance(got, np.ndarray) and got.shape == (n,), f"{tag}-shape", f"{what}: {got!r}")
    for i in range(n):
        g = got[i]
        if not labels[i]:
            require(g == -1, tag, f"{what}: decoy {i} labelled {g}")
        elif i in amb:
            require(g in (0, 1), tag, f"{what}: target {i} labelled {g}")
        else:
            require(g == exp[i], tag, f"{what}: target {i} labelled {g}, the q-value rule gives {exp[i]}")


def _call_best(fn, thr, sig):
    def inner():
        try:
            return fn(thr)
        except RuntimeError as exc:
            if "No PSMs found" in str(exc):
                return exc
            raise

    return guarded(inner, sig=sig)


def _check_best_feature(case, mds, sf, scores2, tb, labels, ref, thr, desc, classes):
    """(_)find_best_feature returns (feature, positives, labels, direction); the labels are the starting
    labels of training.  They must be the q-value labels of that feature in that direction, agree with the
    reported count, and no other feature/direction may accept more targets."""
    import pandas as pd

    from core import scratch_dir

    n = len(labels)
    sf_py = [float(x) for x in sf]
    other = tdc_ref(sf_py, labels, not desc)
    const = tdc_ref([0.0] * n, labels, True)
    # order of sf in direction `desc`: ref; in the other direction: other
    cand = {}
    for name, flip in (("fa", False), ("fb", False), ("fneg", True)):
        for d in (True, False):
            same = (d == desc) != flip
            cand[(name, d)] = labels_ref(ref if same else other, labels, thr)
    for d in (True, False):
        cand[("fconst", d)] = labels_ref(const, labels, thr)
    feats = {"fa": sf, "fb": scores2.astype(np.float64), "fneg": -sf, "fconst": np.zeros(n)}
    order = [["fa", "fb", "fconst"], ["fconst", "fneg"], ["fneg", "fconst", "fa"], ["fb"]][case["perm"] // 2 % 4]
    counts = {k: sum(1 for i, v in enumerate(e) if labels[i] and v == 1 and i not in a) for k, (e, a) in cand.items() if k[0] in order}
    any_amb = any(a for k, (e, a) in cand.items() if k[0] in order)
    best = max(counts.values())

    def verify(res, what):
        if isinstance(res, RuntimeError):
            require(any_amb or best == 0, "best-feature-missing", f"{what}: 'No PSMs found' although a feature accepts {best} targets at {thr}")
            return
        feat, npos, new_labels, d = res
        require((feat, bool(d)) in counts, "best-feature-name", f"{what}: returned feature {feat!r} desc={d!r}")
        exp, amb = cand[(feat, bool(d))]
        new_labels = np.asarray(new_labels)
        _check_labels(new_labels, labels, exp, amb, "best-feature-labels", f"{what} feature={feat} desc={d} thr={thr}")
        require(int(npos) == int((new_labels == 1).sum()), "best-feature-count", f"{what}: reports {npos} positives, labels hold {(new_labels == 1).sum()}")
        if not any_amb:
            require(int(npos) == best, "best-feature-not-best", f"{what}: {feat}/{d} accepts {npos}, best candidate accepts {best}")
        if not d:
            classes.append("best-feature-lower-is-better")

    ltab = render_labels(labels, case["ldtype"])
    df = pd.DataFrame({"SpecId": ["s%d" % i for i in range(n)], "Label": ltab, "ScanNr": np.arange(n),
                       "ExpMass": np.arange(n) + 1.0})
    for f in order:
        df[f] = feats[f]
    df["Peptide"] = ["P%d" % i for i in range(n)]
    df["Proteins"] = "prot"
    ds = guarded(mds.LinearPsmDataset, df, "Label", "ScanNr", "Peptide", feature_columns=list(order),
                 copy_data=case["perm"] % 3 != 1, sig="LinearPsmDataset")
    res = _call_best(ds._find_best_feature, thr, "_find_best_feature")
    verify(res, "LinearPsmDataset._find_best_feature")
    done = 1
    if case["perm"] % 8 == 0:
        import datagen

        raw = case["perm"] % 16 == 0
        with scratch_dir() as tmp:
            fdf = df.copy()
            fdf["Label"] = np.where(tb, 1, -1) if raw else tb.astype(np.int64)
            path = tmp / "best.parquet"
            fdf.to_parquet(path, index=False)
            meta = {"key_cols": ["ScanNr", "ExpMass"], "features": list(order), "levels": ["Peptide"]}
            ods = datagen.build_ondisk(path, fdf, meta)
            res = _call_best(ods.find_best_feature, thr, "find_best_feature")
            verify(res, f"OnDiskPsmDataset.find_best_feature (Label stored as {'-1/1' if raw else '0/1'})")
        classes.append("best-feature-ondisk")
        done += 1
    return done


def check(case):
    if case.get("kind") == "long":
        return _check_long(case)
    from mokapot import qvalues
    from mokapot import dataset as mds

    ranks = case["ranks"]
    labels = case["labels"]
    n = len(ranks)
    k = max(ranks) + 1
    desc = case["desc"]
    table = value_table(k, case["kind"], case["sdtype"])
    assert len(table) == k and np.all(np.diff(table.astype(np.float64)) > 0), (case["kind"], case["sdtype"], k)
    scores = table[np.array(ranks)]
    scores_py = [float(x) if scores.dtype.kind == "f" else int(x) for x in scores]
    target = render_labels(labels, case["ldtype"])
    ref = tdc_ref(scores_py, labels, desc)

    sc_in, tg_in = scores.copy(), target.copy()
    q = guarded(qvalues.tdc, scores, target, desc=desc, sig="tdc")
    require(np.array_equal(sc_in, scores, equal_nan=True) and np.array_equal(tg_in, target), "mutated-input", "tdc modified its arguments")
    _check_q(q, ref, scores_py, desc, "tdc")

    classes = []
    counters = {"q_values_compared": n}
    light = case.get("mode") == "light"

    # --- metamorphic: strictly monotone rescaling keeps q bit-identical -----
    table2 = value_table(k, case["kind2"], "float64")
    scores2 = table2[np.array(ranks)]
    q2 = guarded(qvalues.tdc, scores2, np.array(labels, dtype=bool), desc=desc, sig="tdc")
    require(np.array_equal(q, q2), "rescaling", f"q changed under strictly increasing rescaling: {q} vs {q2}")
    # negated table with the opposite direction is the same ordering
    q3 = guarded(qvalues.tdc, -scores2, np.array(labels, dtype=bool), desc=not desc, sig="tdc")
    require(np.array_equal(q, q3), "direction", f"q(-s, not desc) differs from q(s, desc): {q} vs {q3}")
    counters["metamorphic"] = 2

    if not light:
        # input order: permuting the input permutes the output
        rng = np.random.default_rng(case["perm"])
        p = rng.permutation(n)
        qp = guarded(qvalues.tdc, scores[p], target[p], desc=desc, sig="tdc")
        require(np.array_equal(qp, q[p]), "input-order", "q-values are not returned in input order")
        # list inputs and the algorithm table entry
        if desc:
            qa = guarded(qvalues.qvalues_from_scores, scores, target, "tdc", sig="qvalues_from_scores")
            require(np.array_equal(qa, q), "qvalues_from_scores", "QVALUE_ALGORITHM['tdc'] differs from tdc(desc=True)")
        counters["metamorphic"] += 2

    # --- training labels ----------------------------------------------------
    fi = case["fdr"]
    if fi < len(FDRS):
        thr = FDRS[fi]
    else:
        # a threshold that coincides with an occurring FDR value
        vals = sorted(set(float(x) for x in ref))
        thr = vals[(fi - len(FDRS)) % len(vals)]
        # ... or lies a few parts per million beside it (far outside float32 rounding, so the labels are unambiguous)
        nudge = [0.0, -4e-6, 4e-6, -3e-5][case.get("fdr_nudge", 0) % 4]
        if nudge and not (nudge > 0 and thr * (1 + nudge) > 1.0):
            thr = thr * (1 + nudge)
            classes.append("threshold-ppm-beside-an-occurring-q")
    exp_labels, amb = labels_ref(ref, labels, thr)
    tb = np.array(labels, dtype=bool)
    sf = scores.astype(np.float64)
    got = guarded(mds._update_labels, sf, tb, thr, desc, sig="_update_labels")
    require(isinstance(got, np.ndarray) and got.shape == (n,), "labels-shape", str(got))
    for i in range(n):
        g = got[i]
        if not labels[i]:
            require(g == -1, "labels", f"decoy {i} labelled {g}")
        elif i in amb:
            require(g in (0, 1), "labels", f"target {i} labelled {g}")
        else:
            require(g == exp_labels[i], "labels", f"target {i}: label {g}, expected {exp_labels[i]} (q={ref[i]}, thr={thr})")
        # and against the q-value actually returned (statement: exactly the targets with q<=thr)
        if labels[i]:
            require((g == 1) == bool(q[i] <= thr) or i in amb, "labels-vs-q", f"target {i}: label {g}, returned q {q[i]}, thr {thr}")
    counters["labels_compared"] = n

    if not light:
        import pandas as pd

        got_s = guarded(mds._update_labels, pd.Series(sf), pd.Series(tb), thr, desc, sig="_update_labels")
        require(np.array_equal(got_s, got), "labels-series", "Series inputs give different labels")
        # a label Series in the case's label dtype (0/1 integers or floats) is converted by _update_labels
        got_s2 = guarded(mds._update_labels, pd.Series(sf), pd.Series(target), thr, desc, sig="_update_labels")
        require(np.array_equal(got_s2, got), "labels-series", f"label Series of dtype {case['ldtype']} gives different labels")
        # the two Series need not share an index (a scores column of a sorted / filtered frame, labels from elsewhere):
        # they are paired by position, as arrays are
        n_ = len(sf)
        idx1 = (np.arange(n_)[::-1] * 3 + 7) if n_ % 2 else np.roll(np.arange(n_), 1)
        got_s3 = guarded(mds._update_labels, pd.Series(sf, index=idx1), pd.Series(tb), thr, desc, sig="_update_labels")
        require(len(got_s3) == n_ and np.array_equal(np.asarray(got_s3), got), "labels-series",
                "Series inputs with differing index labels are not paired by position")
        if any(labels) and not all(labels):
            # the dataset's label column in the case's label dtype, data copied or not
            copy = case["perm"] % 3 != 0
            df = pd.DataFrame({"t": target.copy(), "spec": np.arange(n), "pep": ["P%d" % i for i in range(n)], "f": sf})
            ds = guarded(mds.LinearPsmDataset, df, "t", "spec", "pep", copy_data=copy, sig="LinearPsmDataset")
            got_d = guarded(ds._update_labels, sf, thr, desc, sig="LinearPsmDataset._update_labels")
            require(np.array_equal(got_d, got), "labels-dataset",
                    f"LinearPsmDataset._update_labels differs (label dtype {case['ldtype']}, copy_data={copy})")
            require(np.array_equal(np.asarray(ds.targets).astype(bool), tb), "labels-dataset", "dataset.targets differ from the label column")
            # the same through the dataset with the scores in the case's own dtype (a feature column is handed over as it is stored:
            # small signed / unsigned integers, float32)
            got_r = guarded(ds._update_labels, scores.copy(), thr, desc, sig="LinearPsmDataset._update_labels")
            require(np.array_equal(got_r, got), "labels-dataset",
                    f"LinearPsmDataset._update_labels with scores of dtype {scores.dtype} and desc={desc} differs from the float64 result")
            counters["labels_compared"] += n
            if not copy:
                classes.append("dataset-copy_data-false")

    # --- starting labels of the best feature (what Model.fit trains from) -----
    if not light and any(labels) and not all(labels) and case["perm"] % 2 == 0:
        counters["best_feature_labels"] = _check_best_feature(case, mds, sf, scores2, tb, labels, ref, thr, desc, classes)

    # --- classification -----------------------------------------------------
    has_t, has_d = any(labels), not all(labels)
    tie = len(set(ranks)) < n
    better = (lambda a, b: a > b) if desc else (lambda a, b: a < b)
    decoy_above = any(
        (not labels[i]) and labels[j] and better(scores_py[i], scores_py[j]) for i in range(n) for j in range(n)
    ) if n <= 64 else True
    nontrivial = n >= 3 and has_t and has_d and (tie or decoy_above)
    best = max(ranks) if desc else min(ranks)
    top = [i for i in range(n) if ranks[i] == best]
    if len(top) >= 2:
        classes.append("ties-at-top")
    if all(not labels[i] for i in top):
        classes.append("all-decoy-prefix")
    groups = {}
    for i, r in enumerate(ranks):
        groups.setdefault(r, []).append(labels[i])
    if any(len(g) >= 2 and not any(g) for g in groups.values()):
        classes.append("decoy-only-tie-group")
    if any(len(g) >= 2 and any(g) and not all(g) for g in groups.values()):
        classes.append("mixed-tie-group")
    if not desc and tie:
        classes.append("ascending-with-ties")
    if np.dtype(case["sdtype"]).kind in "iu":
        classes.append("integer-scores")
    if case["sdtype"] == "float32":
        classes.append("float32-scores")
    if case["ldtype"].startswith("float"):
        classes.append("float-labels")
    if amb:
        classes.append("threshold-at-occurring-fdr")
    if not has_t:
        classes.append("no-targets")
    if not has_d:
        classes.append("no-decoys")
    classes.append("light" if light else "full")
    return {"nontrivial": nontrivial, "classes": classes, "counters": counters}


# ---------------------------------------------------------------------------
# One very long vector per run: counts beyond 2**24 (the largest integer a float32 accumulator can still increment)
# ---------------------------------------------------------------------------
def _check_long(case):
    """tdc on n > 2**24 PSMs with distinct scores against an integer cumulative-count implementation of the defining
    formula (no ties, so the formula is one running minimum over the ranked list)."""
    import mokapot.qvalues as mq

    n, desc = int(case["n"]), bool(case["desc"])
    rng = np.random.default_rng(case["seed"])
    is_target = rng.random(n) < case["target_frac"]
    # distinct, exactly representable scores in a random order; targets tend to rank better than decoys
    rank = rng.permutation(n).astype(np.float64)
    rank[~is_target] *= 0.25
    order = np.argsort(-rank, kind="stable")  # best first
    scores = np.empty(n, dtype=np.float64)
    scores[order] = np.arange(n, 0, -1, dtype=np.float64) if desc else np.arange(1, n + 1, dtype=np.float64)
    q = np.asarray(guarded(mq.tdc, scores, is_target, desc, sig="tdc"), dtype=np.float64)
    require(q.shape == (n,), "shape", f"tdc returned shape {q.shape} for {n} scores")
    t = np.cumsum(is_target[order], dtype=np.int64)
    d = np.cumsum(~is_target[order], dtype=np.int64)
    fdr = np.where(t > 0, (d + 1) / np.maximum(t, 1), 1.0)
    ref_sorted = np.minimum(np.minimum.accumulate(fdr[::-1])[::-1], 1.0)
    ref = np.empty(n, dtype=np.float64)
    ref[order] = ref_sorted
    bad = np.flatnonzero(np.abs(q - ref) > 3e-7 * np.maximum(ref, 1e-30))
    if bad.size:
        i = int(bad[0])
        raise Violation("formula:tdc-long", f"n={n} ({int(t[-1])} targets, {int(d[-1])} decoys, desc={desc}): q-value of PSM {i} is {q[i]!r}, the defining "
                                            f"formula gives {ref[i]!r}; {bad.size} of {n} q-values deviate")
    return {"nontrivial": bool(t[-1] > 2**24), "classes": ["long-vector", "targets>2**24" if t[-1] > 2**24 else "targets<=2**24"],
            "counters": {"long_vector_rows": n}}


def extra(tier, seed, shard, nshards, stats):
    """Shard 0: one vector with more than 2**24 targets (about 20 s, 1.5 GB); thorough adds one with > 2**24 decoys on shard 1."""
    cases = []
    if shard == 0:
        cases.append({"kind": "long", "n": 2**24 + 2**20 + seed % 1000, "target_frac": 0.985, "desc": bool(seed % 2), "seed": seed})
    elif shard == 1 and tier != "quick":
        cases.append({"kind": "long", "n": 2 * 2**24 + 2**21 + seed % 1000, "target_frac": 0.5, "desc": not bool(seed % 2), "seed": seed + 1})
    for case in cases:
        stats.evaluations += 1
        try:
            obs = _check_long(case)
        except Violation as v:
            stats.failure = {"case": case, "signature": v.signature, "message": v.message}
            return
        stats.observe(case, obs)
