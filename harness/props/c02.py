"""C02 - cross-validation integrity: no PSM is scored by a model that saw its spectrum."""

from __future__ import annotations

import numpy as np

import brewlib
import recorder
from core import Violation, require, scratch_dir

ID = "C02"
LEVEL = "exploration"
LEVEL_TEXT = (
    "Train / held-out set algebra and score provenance observed through recording estimators on every generated configuration; held on all of them. Exploration over datasets, folds, caps, workers, key arities."
)
TECHNIQUE = (
    "Hypothesis-generated multi-file PSM tables x folds x caps x workers, observed through a recording estimator "
    "passed via the public Model API; oracle = train/held-out set algebra on row ids and score provenance"
)
RULE = (
    "case = (1-3 files built from drawn spectrum multiplicities 1-5, key arity 1-4 incl. keys sharing their first "
    "columns, folds 2-6, cap none/huge/active, workers 1-8, rng seed, estimator Lin/Proba, tsv/parquet, prediction "
    "and training-read chunk sizes). Non-trivial: every fold model trained and every held-out fold contains a "
    "spectrum of multiplicity>=2. Distinct = distinct canonical JSON. In addition one direct make_train_sets call per run "
    "with a file of 5 000 000 + k rows (the complement is built in 5e6-row blocks) and small multi-file ones."
)
ASSUMPTIONS = [
    "domain: >=30 rows per fold and spectrum multiplicity<=5 (outside it a partition into the requested number of "
    "non-empty spectrum-closed folds need not exist)",
    "active caps are chosen so that the per-file share does not exceed a file's training rows (rng.choice without "
    "replacement raises otherwise; not part of the integrity statement)",
    "observation relies on the estimator being called through the public scikit-learn interface with scaler='as-is'",
]


def budget(tier):
    if tier == "quick":
        return {"examples": 192, "shards": 16, "time_s": 75}
    return {"examples": 4800, "shards": 16, "time_s": 900}


def strategy(tier):
    return brewlib.cv_case(tier)


def _check_train_sets(case):
    """Training-index construction for very long files: the complement of the held-out rows is built in blocks of
    5 000 000 rows; only an input longer than that reaches the second block.  Index-only (no table needed)."""
    import mokapot  # noqa: F401  (mokapot.brew is the function; the module sits in sys.modules)

    bmod = __import__("sys").modules["mokapot.brew"]
    from core import guarded

    rng = np.random.default_rng(case["seed"])
    sizes, folds = case["sizes"], case["folds"]
    test_idx = []
    for ds in sizes:
        assign = rng.integers(0, folds, ds)
        assign[:folds] = np.arange(folds)
        test_idx.append([np.flatnonzero(assign == f) for f in range(folds)])
    cap = case.get("cap")
    gen = guarded(bmod.make_train_sets, test_idx, cap, list(sizes), np.random.default_rng(case["seed"] + 1), sig="make_train_sets")
    nsets = 0
    for f, train in enumerate(guarded(list, gen, sig="make_train_sets")):
        require(len(train) == len(sizes), "train-sets-shape", f"fold {f}: {len(train)} index lists for {len(sizes)} files")
        for fi, ds in enumerate(sizes):
            got = np.sort(np.asarray(train[fi], dtype=np.int64))
            comp = np.setdiff1d(np.arange(ds, dtype=np.int64), test_idx[fi][f], assume_unique=True)
            require(got.size == np.unique(got).size, "train-duplicates", f"fold {f} file {fi}: a row is listed twice in the training set")
            leaked = np.intersect1d(got, test_idx[fi][f])
            require(leaked.size == 0, "trained-on-held-out",
                    f"fold {f} file {fi} ({ds} rows): {leaked.size} held-out rows are in the fold's own training set, e.g. {leaked[:3].tolist()}")
            if cap is None:
                missing = np.setdiff1d(comp, got, assume_unique=True)
                require(missing.size == 0 and got.size == comp.size, "train-not-complement",
                        f"fold {f} file {fi} ({ds} rows): training rows are not the complement of the held-out rows "
                        f"({got.size} vs {comp.size}; missing e.g. {missing[:3].tolist()})")
            else:
                require(np.setdiff1d(got, comp, assume_unique=True).size == 0, "train-not-subset", f"fold {f} file {fi}")
            nsets += 1
    return {"nontrivial": max(sizes) > 5_000_000, "classes": ["train-sets-direct", "file>5e6-rows" if max(sizes) > 5_000_000 else "small"],
            "counters": {"train_sets_checked": nsets}}


def extra(tier, seed, shard, nshards, stats):
    """One direct call of make_train_sets with a file longer than its 5e6-row block (shard 0), small ones elsewhere."""
    from core import Violation

    if shard == 0:
        cases = [{"kind": "train_sets", "sizes": [5_000_000 + 3 + seed % 50], "folds": 2, "seed": seed, "cap": None}]
    elif shard == 1 and tier != "quick":
        cases = [{"kind": "train_sets", "sizes": [1500, 5_000_000 + 11], "folds": 2, "seed": seed + 7, "cap": 3_000_000}]
    else:
        cases = [{"kind": "train_sets", "sizes": [50 + shard, 200 + 3 * shard], "folds": 2 + shard % 4, "seed": seed * 31 + shard,
                  "cap": None if shard % 2 else 40}]
    for case in cases:
        stats.evaluations += 1
        try:
            obs = _check_train_sets(case)
        except Violation as v:
            stats.failure = {"case": case, "signature": v.signature, "message": v.message}
            return
        stats.observe(case, obs)


def check(case):
    if case.get("kind") == "train_sets":
        return _check_train_sets(case)
    rescored, order = None, None
    with scratch_dir() as tmp:
        r = brewlib.run_brew(case, tmp)
        if r["models"] is not None and len(r["models"]) == case["folds"] and all(m.is_trained for m in r["models"]) and case["rng"] % 3 != 2:
            # history: the trained fold models are handed back (as --load_models does) in another order; every PSM must
            # again be scored by the model of its fold, i.e. the scores must be those of the first run
            k = case["folds"]
            order = list(reversed(range(k))) if case["rng"] % 3 == 0 else [(i + 1) % k for i in range(k)]
            # fold membership is a function of the data alone: another seed in the second call must not matter
            rescored = brewlib.rescore(case, tmp, r["models"], order, rng_shift=0 if case["rng"] % 3 == 0 else 12345)
            if case["rng"] % 2 == 0:
                # ... and with another fold count (--load_models with --folds forgotten): k models cannot be "the model of
                # its fold" for k' folds; scores returned here would come from models that saw the PSM
                other = k - 1 if (k > 2 and case["rng"] % 4 == 0) else k + 1
                require(brewlib.mismatch_refused(case, tmp, r["models"], other), "model-count-mismatch-accepted",
                        f"{k} trained fold models handed back with folds={other}: brew returned scores instead of refusing")
    dfs, metas, models, scores, events = r["dfs"], r["metas"], r["models"], r["scores"], r["events"]
    folds = case["folds"]
    nfiles = len(dfs)
    require(len(models) == folds, "n-models", f"{len(models)} models for {folds} folds")
    require(len(scores) == nfiles, "n-scores", f"{len(scores)} score vectors for {nfiles} files")
    logs = recorder.split_log(events)
    all_rids = set()
    key_of = {}
    for fi, (df, meta) in enumerate(zip(dfs, metas)):
        keys = brewlib.full_keys(df, meta)
        for pos, k in enumerate(keys):
            rid = fi * 1_000_000 + pos
            all_rids.add(rid)
            key_of[rid] = (fi, k)
    R, T, raw = [], [], {}
    for j, m in enumerate(models):
        tok = m.estimator.__dict__.get("token_")
        require(tok in logs, "untracked-model", f"model {j} has no log (token {tok})")
        d = logs[tok]
        rj = set()
        for rids, vals in d["final"]:
            for rr, v in zip(rids.tolist(), vals.tolist()):
                # predict_proba estimators are legitimately called twice per scoring by Model._get_scores
                require(rr not in raw or raw[rr] == (j, v), "scored-twice", f"row {rr} scored more than once in the final scoring")
                raw[rr] = (j, v)
                rj.add(rr)
        R.append(rj)
        T.append(set(d["train"]))
    trained = all(m.is_trained for m in models)
    gtok = r.get("given_token")
    if case.get("single_trained") and gtok is not None and gtok not in {m.estimator.__dict__.get("token_") for m in models} \
            and logs.get(gtok, {}).get("final"):
        # The re-training of the model brew was given "performed worse" in some fold and brew fell back to that model for every
        # PSM (documented).  What it was trained on is the caller's business; the fold models of THIS run, however, must not
        # have scored PSMs they (or their spectra) were fitted on.
        for j in range(len(models)):
            tkeys = {key_of[rr] for rr in T[j]}
            seen = [rr for rr in R[j] if rr in T[j] or key_of[rr] in tkeys]
            require(not seen, "scored-by-model-that-saw-it",
                    f"fall-back to the handed-over model: fold model {j + 1} of this run scored {len(seen)} PSMs that (or whose spectrum) it "
                    f"had just been re-trained on, e.g. rows {sorted(seen)[:3]}")
        for fi, sc in enumerate(scores):
            require(len(np.asarray(sc).ravel()) == len(dfs[fi]), "score-length", f"file {fi}")
        return {"nontrivial": False, "classes": ["fall-back-to-the-handed-over-model"]}
    if not trained:
        # Training failed in some fold(s).  There is no "model of its fold" for the PSMs of an untrained fold, so mokapot
        # scores by no model at all (zeros / the best feature).  What the statement still forbids: a returned score that
        # comes out of a model which saw the PSM or its spectrum.  Scores that are constant or a copy of an input feature
        # are not model output; otherwise every final-phase prediction of model j on a row of its own training data is
        # such a score (brew discards nothing it predicts).
        ntr = sum(bool(m.is_trained) for m in models)
        derived = []
        for fi, sc in enumerate(scores):
            sc = np.asarray(sc, dtype=float).ravel()
            require(len(sc) == len(dfs[fi]), "score-length", f"file {fi}: {len(sc)} scores for {len(dfs[fi])} PSMs")
            const = bool(np.all(sc == sc[0]))
            isfeat = any(np.array_equal(sc, dfs[fi][c].to_numpy(dtype=float)) for c in metas[fi]["features"])
            if not (const or isfeat):
                derived.append(fi)
        if derived:
            for j in range(len(models)):
                tkeys = {key_of[rr] for rr in T[j]}
                seen = [rr for rr in R[j] if rr // 1_000_000 in derived and (rr in T[j] or key_of[rr] in tkeys)]
                require(not seen, "scored-by-model-that-saw-it",
                        f"training failed in {len(models) - ntr} of {len(models)} folds, yet the returned scores are model output and model "
                        f"{j + 1} scored {len(seen)} PSMs that (or whose spectrum) it was trained on, e.g. rows {sorted(seen)[:3]}")
        return {"nontrivial": False, "classes": ["untrained", "partly-trained" if 0 < ntr < len(models) else "no-fold-trained"]
                + (["partly-trained:scores-are-model-output"] if derived else [])}
    # --- partition ----------------------------------------------------------
    union = set()
    for j, rj in enumerate(R):
        require(len(rj) > 0, "empty-fold", f"fold {j + 1} scored no PSM")
        require(not (union & rj), "folds-overlap", f"fold {j + 1} shares PSMs with another fold")
        union |= rj
    require(union == all_rids, "partition", f"{len(all_rids - union)} PSMs unscored, {len(union - all_rids)} unknown")
    for fi in range(nfiles):
        blocks = sum(1 for rj in R if any(rr // 1_000_000 == fi for rr in rj))
        require(blocks == folds, "file-folds", f"file {fi} is split into {blocks} folds instead of {folds}")
    fold_of_key = {}
    for j, rj in enumerate(R):
        for rr in rj:
            prev = fold_of_key.setdefault(key_of[rr], j)
            require(prev == j, "spectrum-split", f"spectrum {key_of[rr]} has PSMs in folds {prev + 1} and {j + 1}")
    # --- training sets --------------------------------------------------------
    cap = r["cap"]
    for j in range(folds):
        inter = T[j] & R[j]
        require(not inter, "trained-on-held-out", f"model {j + 1} was trained on {len(inter)} PSMs it later scored, e.g. {sorted(inter)[:3]}")
        srids = getattr(getattr(r["models"][j], "scaler", None), "train_rids_", None)
        if srids is not None:
            # the feature scaler belongs to the fold's model: the one that scales fold j's held-out PSMs was fitted without them
            sinter = {int(x) for x in srids} & R[j]
            require(not sinter, "scaler-fitted-on-held-out",
                    f"the scaler of model {j + 1} was fitted on {len(sinter)} PSMs that this model scored, e.g. {sorted(sinter)[:3]}")
        tkeys = {key_of[rr] for rr in T[j]}
        leak = [rr for rr in R[j] if key_of[rr] in tkeys]
        require(not leak, "spectrum-leak", f"model {j + 1} saw the spectrum of {len(leak)} PSMs it scored")
        require(T[j] <= all_rids, "unknown-train-rows", "training rows not in the input")
        comp = all_rids - R[j]
        if cap is None or cap >= len(comp):
            require(T[j] == comp, "train-complement", f"model {j + 1}: training set differs from the complement of its fold by {len(T[j] ^ comp)} rows")
        else:
            require(T[j] <= comp, "train-subset", "capped training set is not a subset of the other folds")
            require(len(T[j]) <= cap, "cap-exceeded", f"model {j + 1}: {len(T[j])} training rows for cap {cap}")
            require(len(T[j]) >= min(cap, len(comp)) - nfiles, "cap-underused", f"model {j + 1}: only {len(T[j])} training rows for cap {cap}")
    # --- score provenance + input order ---------------------------------------
    is_proba = case["est"].startswith("Proba") and not case.get("fail_marks")
    for fi, sc in enumerate(scores):
        sc = np.asarray(sc, dtype=float).ravel()
        n = len(dfs[fi])
        require(len(sc) == n, "score-length", f"file {fi}: {len(sc)} scores for {n} PSMs")
        require(bool(np.all(np.isfinite(sc))), "score-nonfinite", f"file {fi}")
        rids = [fi * 1_000_000 + p for p in range(n)]
        js = np.array([raw[rr][0] for rr in rids])
        rv = np.array([raw[rr][1] for rr in rids])
        if is_proba:
            bad = np.nonzero(sc != rv)[0]
            require(len(bad) == 0, "score-provenance", f"file {fi}: score of row {bad[:3].tolist()} is not the output of its fold's model")
        else:
            for j in range(folds):
                m = js == j
                if m.sum() < 3:
                    continue
                x, y = rv[m], sc[m]
                A = np.column_stack([x, np.ones_like(x)])
                coef, *_ = np.linalg.lstsq(A, y, rcond=None)
                resid = np.max(np.abs(A @ coef - y))
                scale = max(1.0, np.max(np.abs(y)))
                # orientation / anchors of the map are C11's subject (and only on C11's domain)
                require(coef[0] != 0 and resid <= 1e-8 * scale, "score-provenance",
                        f"file {fi} fold {j + 1}: returned scores are not an affine image of the fold model's output (slope {coef[0]:.3g}, resid {resid:.3g})")
    # --- pretrained models in another order ---------------------------------------
    if rescored is not None:
        require(len(rescored) == nfiles, "n-scores", f"rescoring: {len(rescored)} score vectors for {nfiles} files")
        for fi in range(nfiles):
            a = np.asarray(scores[fi], dtype=float).ravel()
            b = np.asarray(rescored[fi], dtype=float).ravel()
            bad = np.flatnonzero(~((a == b) | (np.isnan(a) & np.isnan(b)))) if a.shape == b.shape else np.arange(1)
            if bad.size:
                eg = f"row {int(bad[0])}: {a[bad[0]]!r} vs {b[bad[0]]!r}" if a.shape == b.shape else f"shapes {a.shape} vs {b.shape}"
                raise Violation("pretrained-order",
                                f"file {fi}: with the trained fold models handed over in order {[i + 1 for i in order]} {bad.size} of {a.size} "
                                f"PSMs get another score than from the model of their fold (e.g. {eg})")
    # --- classification ---------------------------------------------------------
    mult_ok = True
    for j in range(folds):
        cnt = {}
        for rr in R[j]:
            cnt[key_of[rr]] = cnt.get(key_of[rr], 0) + 1
        if not any(c >= 2 for c in cnt.values()):
            mult_ok = False
    classes = [f"key{case['key']}", case["est"], case["fmt"], f"folds{folds}"]
    if case.get("sweep_before"):
        classes.append("brewed-before-with-another-fold-count")
    elif case.get("single_trained"):
        classes.append("one-trained-model-handed-over")
    if nfiles > 1:
        classes.append("multi-file")
    if cap is not None and cap < min(len(all_rids - rj) for rj in R):
        classes.append("cap-active")
    if case["workers"] > 1:
        classes.append("workers>1")
    if case.get("predict_chunk"):
        classes.append("small-predict-chunk")
    if case.get("shared_prefix") and case["key"] >= 3:
        classes.append("shared-key-prefix")
    if rescored is not None:
        classes.append("pretrained-models-reordered")
    return {"nontrivial": bool(trained and mult_ok), "classes": classes,
            "counters": {"rows_checked": len(all_rids), "folds_checked": folds}}
