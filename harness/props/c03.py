"""C03 - competition and rollup keep exactly the best PSM per spectrum / per entity."""

from __future__ import annotations

from pathlib import Path

import numpy as np
import pandas as pd
from hypothesis import strategies as st

import config_inject
import datagen
from core import Rejected, Violation, guarded, require, scratch_dir
from refs import tdc_ref

ID = "C03"
LEVEL = "exploration"
TECHNIQUE = (
    "Hypothesis-generated PSM tables x score vectors x option flags through assign_confidence and the stand-alone "
    "rollup tool; oracle = independent competition/rollup reference (validity predicate under ties) plus the exact "
    "TDC reference on the retained rows"
)
RULE = (
    "case = 1-3 collections built from drawn spectrum multiplicities (1-4) and a small peptide pool (peptides recur "
    "across spectra), optional extra level columns, label encoding, score vector distinct (class A) or with exact "
    "ties (class B), flags deduplication/do_rollup/decoys/prefixes, tsv/parquet, confidence and merge chunk sizes, "
    "workers; optionally the written result files are fed to brew_rollup.main; per shard one (quick) / six (thorough) "
    "command-line runs with and without --skip_deduplication. Non-trivial: some spectrum has >=2 "
    "PSMs whose best is not first in file order and some peptide is carried by >=2 retained PSMs. Distinct = "
    "distinct canonical JSON."
)
ASSUMPTIONS = [
    "text files: scores compared with rtol 1e-12 (mokapot re-reads its temporary text files with pandas' fast float "
    "parser); q-values within 2.5e-7 relative of the exact reference (float32 FDR storage)",
    "with exact score ties any tied winner is accepted (validity predicate); tie cases always request decoy output so "
    "the retained set is observable",
    "PEP estimation is replaced by a stub that is a fixed function of the score (selected through the public "
    "peps_algorithm argument), so PEP alignment is still checked exactly",
]

LEVEL_NAME = {"Peptide": "peptides", "ModifiedPeptide": "modifiedpeptides", "Precursor": "precursors",
              "PeptideGroup": "peptidegroups"}
TOOL_COL = {"Peptide": "peptide", "ModifiedPeptide": "modified_peptide", "Precursor": "precursor",
            "PeptideGroup": "peptide_group"}


def budget(tier):
    if tier == "quick":
        return {"examples": 480, "shards": 16, "time_s": 60}
    return {"examples": 9600, "shards": 16, "time_s": 900}


@st.composite
def _case(draw, tier):
    ncoll = draw(st.sampled_from([1, 1, 2, 3]))
    big = tier != "quick"
    colls = []
    for _ in range(ncoll):
        ns = draw(st.integers(1, 120 if big else 40))
        colls.append({"mults": datagen.draw_mults(draw, st, (ns, ns), draw(st.integers(1, 4)))})
    ties = draw(st.sampled_from([False, False, True]))
    tool = draw(st.sampled_from([False, False, False, True]))
    decoys = True if (ties or tool) else draw(st.booleans())
    # "mixed": the first collection goes to the un-prefixed files, the later ones get a prefix each
    prefixes = True if tool else draw(st.sampled_from([True, True, False, "mixed"]))
    extra = draw(st.lists(st.sampled_from(["ModifiedPeptide", "Precursor", "PeptideGroup"]), unique=True, max_size=3))
    return {
        "seed": draw(st.integers(0, 2**31 - 1)),
        "colls": colls,
        "n_pep": draw(st.integers(2, 30)),
        "extra": sorted(extra),
        "label_enc": draw(st.sampled_from(["pm1", "01", "bool"])),
        "ties": ties,
        "dedup": draw(st.sampled_from([True, True, False])),
        "rollup": draw(st.sampled_from([True, True, True, False])),
        "decoys": decoys,
        "prefixes": prefixes,
        "collide": draw(st.sampled_from([False, False, True])),
        "crossed": draw(st.sampled_from([False, False, True])),
        "fmt": draw(st.sampled_from(["tsv", "tsv", "parquet"])),
        "key": draw(st.integers(1, 4)),
        "conf_chunk": draw(st.sampled_from([None, 1, 2, 3, 7, 16, 50])),
        "merge_chunk": draw(st.sampled_from([None, 1, 2, 5])),
        "workers": draw(st.integers(1, 4)),
        "tool": tool,
        "tool_level": draw(st.sampled_from(["psm", "psm", "peptide"])),
        # '#' inside text fields (SEQUEST-style M# modifications, accessions with a #n suffix): an ordinary character
        "hash": draw(st.sampled_from([False, False, True])),
        # distinct spectra whose keys differ only in the 6th decimal of the measured mass
        "near": draw(st.sampled_from([False, False, True])),
        # every other spectrum has a whole-valued measured mass, printed without a decimal point in text inputs
        "whole": draw(st.sampled_from([False, False, True])),
    }


@st.composite
def _wk_case(draw, tier):
    """Text input read through read_pin whose measured-mass key column is whole-valued for some spectra and printed without a
    decimal point: a confidence chunk holding only such rows is typed integer, another one float."""
    return {"wk": True, "seed": draw(st.integers(0, 2**31 - 1)), "nspec": draw(st.integers(4, 16)),
            "chunk": draw(st.integers(2, 9)), "whole_frac": draw(st.sampled_from([0.3, 0.5, 0.7]))}


def strategy(tier):
    return st.one_of([_case(tier)] * 9 + [_wk_case(tier)])


# ---------------------------------------------------------------------------
def _scores(case, ci, n, is_target):
    rng = np.random.default_rng(case["seed"] * 31 + ci)
    s = rng.normal(0, 1, n) + np.where(is_target, 1.0, 0.0) * (rng.random(n) < 0.5) * 2.5
    if case["ties"]:
        s = np.round(s, 0) / 2.0
    else:
        # distinct, short decimal representation
        s = np.round(s, 6)
        order = np.argsort(s, kind="stable")
        bump = np.zeros(n)
        bump[order] = np.arange(n) * 1e-9
        s = s + bump
    return s.astype(float)


def _read(path):
    df = pd.read_csv(path, sep="\t", float_precision="round_trip", dtype={"PSMId": str, "psm_id": str})
    return df


def _close(a, b, rtol=1e-12):
    return abs(a - b) <= rtol * max(abs(a), abs(b), 1e-300)


def _whole_keys(case):
    import mokapot

    config_inject.install_pep_stub()
    rng = np.random.default_rng(case["seed"])
    rows, rid = [], 0
    for sp in range(case["nspec"]):
        mass = float(1000 + sp) if rng.random() < case["whole_frac"] else 1000.5 + sp
        for k in range(int(rng.integers(1, 4))):
            rows.append({"SpecId": f"f0_r{rid}", "Label": 1 if rng.random() < 0.6 else -1, "ScanNr": 100 + sp, "ExpMass": mass,
                         "f0": float(np.round(rng.normal(0, 2), 3)), "Peptide": f"PEP{rid}K", "Proteins": f"p{rid}"})
            rid += 1
    df = pd.DataFrame(rows).iloc[rng.permutation(len(rows))].reset_index(drop=True)
    df.loc[0, "Label"], df.loc[len(df) - 1, "Label"] = 1, -1
    nspec = df.groupby(["ScanNr", "ExpMass"]).ngroups
    counts = {}
    with scratch_dir() as tmp:
        p = tmp / "in.pin"
        with open(p, "w") as fh:
            fh.write("\t".join(df.columns) + "\n")
            for r in df.itertuples(index=False):
                fh.write("\t".join(str(int(v)) if (c == "ExpMass" and float(v).is_integer()) else str(v) for c, v in zip(df.columns, r)) + "\n")
        for chunk in (100000, case["chunk"]):
            ds = guarded(mokapot.read_pin, p, max_workers=1, sig="read_pin")
            ds = ds[0] if isinstance(ds, list) else ds
            out = tmp / f"out{chunk}"
            out.mkdir()
            with config_inject.chunk_sizes(confidence=chunk):
                guarded(mokapot.assign_confidence, [ds], scores=[df["f0"].to_numpy(dtype=float)], descs=[True], eval_fdr=0.5, dest_dir=out,
                        prefixes=[None], decoys=True, max_workers=1, peps_algorithm="verif_stub", do_rollup=False, sig="assign_confidence")
            got = pd.concat([_read(out / "targets.psms"), _read(out / "decoys.psms")])
            counts[chunk] = len(got)
            require(len(got) == nspec and got["PSMId"].nunique() == nspec, "spectrum-duplicated",
                    f"{len(got)} PSMs reported for {nspec} distinct spectra (confidence chunk {chunk}, measured masses partly whole-valued "
                    f"and printed without a decimal point)")
    return {"nontrivial": True, "classes": ["whole-valued-key-masses-read-pin"], "counters": {"rows_checked": len(df)}}


def check(case):
    if case.get("wk"):
        return _whole_keys(case)
    if case.get("cli"):
        info = _cli_case(case["seed"])
        return {"nontrivial": True, "classes": ["cli-skip-deduplication"], "counters": {"cli_runs": 2, "rows_checked": info["rows"]}}
    if case.get("cli2"):
        info = _cli_two_collections(case["seed"])
        return {"nontrivial": True, "classes": ["cli-two-collections"], "counters": {"cli_runs": 1, "rows_checked": info["rows"]}}
    import mokapot
    from mokapot import brew_rollup
    import mokapot.peps as mpeps

    config_inject.install_pep_stub()
    ext = ".parquet" if case["fmt"] == "parquet" else ".pin"
    counters = {"rows_checked": 0, "qvalues_checked": 0, "files_checked": 0}
    with scratch_dir() as tmp:
        psms, inputs, scores = [], [], []
        for ci, coll in enumerate(case["colls"]):
            df, meta = datagen.psm_frame(case["seed"] + 101 * ci, coll["mults"], key_arity=case["key"], colliding_keys=bool(case.get("collide")), crossed_levels=bool(case.get("crossed")), near_keys=bool(case.get("near")), n_noise=1,
                                         file_index=ci, with_rid=False, n_peptides=case["n_pep"],
                                         label_enc=case["label_enc"], extra_levels=case["extra"])
            if case.get("hash"):
                df = df.copy()
                df["Peptide"] = [p_[:2] + "#" + p_[2:] if sum(map(ord, p_)) % 3 == 0 else p_ for p_ in df["Peptide"]]
                df["Proteins"] = [p_ + "#2" if sum(map(ord, p_)) % 2 == 0 else p_ for p_ in df["Proteins"]]
            path = tmp / f"in{ci}{ext}"
            whole = bool(case.get("whole")) and "ExpMass" in df.columns and not case.get("near") and not case.get("collide")
            if whole:
                df = df.copy()
                m_ = df["ExpMass"].to_numpy(dtype=float).copy()
                sel_ = df["ScanNr"].to_numpy() % 2 == 0
                m_[sel_] = np.round(m_[sel_])
                df["ExpMass"] = m_
            if whole and ext != ".parquet":
                dfw = df.astype(object)
                dfw["ExpMass"] = [str(int(v)) if float(v).is_integer() else repr(float(v)) for v in df["ExpMass"]]
                datagen.write_table(dfw, path)
            else:
                datagen.write_table(df, path)
            psms.append(datagen.build_ondisk(path, df, meta))
            sc = _scores(case, ci, len(df), meta["is_target"])
            scores.append(sc)
            keys = list(zip(*[df[c].tolist() for c in meta["key_cols"]]))
            rows = {}
            for i in range(len(df)):
                rows[df["SpecId"].iat[i]] = {
                    "pos": i, "target": bool(meta["is_target"][i]), "key": keys[i], "score": float(sc[i]),
                    "Peptide": df["Peptide"].iat[i], "Proteins": df["Proteins"].iat[i],
                    **{lv: df[lv].iat[i] for lv in case["extra"]},
                }
            inputs.append(rows)
        dest = tmp / "out"
        dest.mkdir()
        # "no prefix" is spelled None by library callers and "" by the command line (single file / --aggregate)
        noprefix = "" if case["seed"] % 2 else None
        if case["prefixes"] == "mixed":
            prefixes = [noprefix] + [f"c{ci}" for ci in range(1, len(psms))]
        else:
            prefixes = [f"c{ci}" for ci in range(len(psms))] if case["prefixes"] else [noprefix] * len(psms)
        plist = list(prefixes)
        with config_inject.chunk_sizes(confidence=case["conf_chunk"], merge=case["merge_chunk"]):
            guarded(
                mokapot.assign_confidence,
                psms,
                max_workers=case["workers"],
                scores=[s.copy() for s in scores],
                descs=[True] * len(psms),
                eval_fdr=0.05,
                dest_dir=dest,
                prefixes=prefixes,
                decoys=case["decoys"],
                deduplication=case["dedup"],
                do_rollup=case["rollup"],
                peps_algorithm="verif_stub",
                sig="assign_confidence",
            )
        level_cols = ["Peptide"] + case["extra"] if case["rollup"] else []
        levels = [("psms", None)] + [(LEVEL_NAME[c], c) for c in level_cols]
        produced = sorted(p.name for p in dest.iterdir())
        expected_files = set()
        nt_flags = {"winner_not_first": False, "peptide_multi": False}
        for lname, lcol in levels:
            for ci in range(len(psms)):
                pre = f"{plist[ci]}." if plist[ci] else ""
                expected_files.add(f"{pre}targets.{lname}")
                if case["decoys"]:
                    expected_files.add(f"{pre}decoys.{lname}")
        require(set(produced) == expected_files, "result-files",
                f"files in dest_dir {produced} != expected {sorted(expected_files)}")

        # ---- per collection, per level validation ----------------------------
        psm_obs = {}
        for lname, lcol in levels:
            tfiles, dfiles = {}, {}
            with_pre = [ci for ci in range(len(psms)) if plist[ci]]
            without = [ci for ci in range(len(psms)) if not plist[ci]]
            for ci in with_pre:
                tfiles[ci] = _read(dest / f"{plist[ci]}.targets.{lname}")
                if case["decoys"]:
                    dfiles[ci] = _read(dest / f"{plist[ci]}.decoys.{lname}")
            if without:
                tall = _read(dest / f"targets.{lname}")
                dall = _read(dest / f"decoys.{lname}") if case["decoys"] else None
                for ci in without:
                    pref = f"f{ci}_"
                    tfiles[ci] = tall[tall["PSMId"].astype(str).str.startswith(pref)].reset_index(drop=True)
                    if dall is not None:
                        dfiles[ci] = dall[dall["PSMId"].astype(str).str.startswith(pref)].reset_index(drop=True)
                # blocks must appear in collection order
                for name, allf in (("targets", tall), ("decoys", dall)):
                    if allf is None or not len(allf):
                        continue
                    owner = allf["PSMId"].str.extract(r"^f(\d+)_")[0].astype(int).tolist()
                    require(owner == sorted(owner), "block-order", f"{name}.{lname}: collections are interleaved")
            for ci in range(len(psms)):
                got = _validate_level(case, inputs[ci], lname, lcol, tfiles[ci], dfiles.get(ci), counters, nt_flags, ci,
                                      psm_obs.get(ci))
                if lcol is None:
                    psm_obs[ci] = got
                counters["files_checked"] += 1 + (1 if case["decoys"] else 0)

        classes = []
        # ---- stand-alone rollup tool -----------------------------------------
        if case["tool"]:
            if _check_tool(case, dest, tmp, counters, brew_rollup, mpeps):
                classes.append("rollup-tool")
    if not case["dedup"]:
        classes.append("dedup-off")
    if not case["rollup"]:
        classes.append("rollup-off")
    if len(case["colls"]) >= 2:
        classes.append("multi-collection")
    if case["prefixes"] == "mixed" and len(case["colls"]) >= 2:
        classes.append("first-collection-without-prefix-others-with")
    elif not case["prefixes"] or case["prefixes"] == "mixed":
        classes.append("no-prefixes" + ("-empty-string" if case["seed"] % 2 else "-none"))
    if case["extra"]:
        classes.append("extra-levels")
    if case.get("crossed") and len(case["extra"]) >= 2:
        classes.append("level-columns-not-nested-equal-cardinality")
    if case.get("collide") and case["key"] in (2, 3):
        classes.append("spectrum-keys-equal-when-concatenated")
    if case["ties"]:
        classes.append("ties")
    classes.append(case["fmt"])
    if case["conf_chunk"]:
        classes.append("small-conf-chunk")
    if case.get("hash"):
        classes.append("hash-character-in-text-fields")
    if case.get("whole") and case["key"] >= 2 and not case.get("near") and not case.get("collide"):
        classes.append("whole-valued-key-masses")
    if case.get("near") and case["key"] >= 2:
        classes.append("spectrum-keys-differing-in-6th-decimal")
    nontrivial = nt_flags["winner_not_first"] and (nt_flags["peptide_multi"] or not case["rollup"])
    return {"nontrivial": nontrivial, "classes": classes, "counters": counters}


def _validate_level(case, rows, lname, lcol, tdf, ddf, counters, nt, ci, psm_obs=None):
    tag = f"{lname}[c{ci}]"
    want_cols = ["PSMId", "peptide"] + [c for c in case["extra"] if case["rollup"]] + ["score", "q-value", "posterior_error_prob", "proteinIds"]
    for name, f in (("targets", tdf), ("decoys", ddf)):
        if f is None:
            continue
        # the columns are identified by name; their order in the file is not part of the statement
        require(sorted(f.columns) == sorted(want_cols), "columns", f"{name}.{tag}: {list(f.columns)} != {want_cols}")
    # ---- each output row is one input row -------------------------------------
    seen_ids = set()
    out_rows = []  # (PSMId, is_target_file)
    for name, f, is_t in (("targets", tdf, True), ("decoys", ddf, False)):
        if f is None:
            continue
        prev = None
        for r in f.itertuples(index=False):
            d = r._asdict() if hasattr(r, "_asdict") else dict(zip(f.columns, r))
            pid = d["PSMId"]
            require(pid in rows, "invented-row", f"{name}.{tag}: PSMId {pid} is not an input PSM of this collection")
            require(pid not in seen_ids, "duplicate-row", f"{name}.{tag}: PSMId {pid} written twice")
            seen_ids.add(pid)
            src = rows[pid]
            require(src["target"] == is_t, "wrong-file", f"{name}.{tag}: PSM {pid} has label target={src['target']}")
            require(d["peptide"] == src["Peptide"], "field-mismatch", f"{name}.{tag}: {pid} peptide {d['peptide']} != {src['Peptide']}")
            require(d["proteinIds"] == src["Proteins"], "field-mismatch", f"{name}.{tag}: {pid} proteins {d['proteinIds']} != {src['Proteins']}")
            if case["rollup"]:
                for lv in case["extra"]:
                    require(d[lv] == src[lv], "field-mismatch", f"{name}.{tag}: {pid} {lv} {d[lv]} != {src[lv]}")
            sc = float(d["score"])
            require(_close(sc, src["score"]), "score-mismatch", f"{name}.{tag}: {pid} score {sc!r} != input {src['score']!r}")
            if prev is not None:
                require(sc <= prev, "not-sorted", f"{name}.{tag}: score increases down the file ({prev} -> {sc})")
            prev = sc
            pep = float(d["posterior_error_prob"])
            require(abs(pep - float(config_inject.pep_stub([sc])[0])) <= 1e-9, "pep-misaligned",
                    f"{name}.{tag}: {pid} PEP {pep} is not that of its own score {sc}")
            out_rows.append((pid, is_t))
            counters["rows_checked"] += 1
    have_decoys = ddf is not None
    out_ids = {p for p, _ in out_rows}
    # ---- retained PSM set ---------------------------------------------------------
    by_key = {}
    for pid, r in rows.items():
        by_key.setdefault(r["key"], []).append(pid)
    if case["dedup"]:
        winners = {}  # key -> set of admissible winners
        for k, ids in by_key.items():
            m = max(rows[i]["score"] for i in ids)
            winners[k] = {i for i in ids if rows[i]["score"] == m}
            if len(ids) >= 2:
                first = min(ids, key=lambda i: rows[i]["pos"])
                if first not in winners[k]:
                    nt["winner_not_first"] = True
    else:
        winners = None
        if any(len(v) >= 2 for v in by_key.values()):
            nt["winner_not_first"] = True
    if lcol is None:
        # PSM level
        if case["dedup"]:
            keys_out = {}
            for pid in out_ids:
                k = rows[pid]["key"]
                require(k not in keys_out, "spectrum-duplicated", f"{tag}: spectrum {k} has two PSMs in the result ({keys_out.get(k)}, {pid})")
                keys_out[k] = pid
                require(pid in winners[k], "wrong-winner",
                        f"{tag}: PSM {pid} (score {rows[pid]['score']}) kept for spectrum {k}, best is {sorted(winners[k])[:2]} "
                        f"(score {rows[next(iter(winners[k]))]['score']})")
            for k, w in winners.items():
                if have_decoys or all(rows[i]["target"] for i in w):
                    require(k in keys_out, "spectrum-missing", f"{tag}: no PSM of spectrum {k} in the result")
                if not have_decoys and not any(rows[i]["target"] for i in w):
                    require(k not in keys_out, "loser-kept", f"{tag}: spectrum {k} is won by a decoy but a target is reported")
        else:
            exp = {p for p, r in rows.items() if have_decoys or r["target"]}
            require(out_ids == exp, "psm-set", f"{tag}: {len(exp - out_ids)} PSMs missing, {len(out_ids - exp)} extra with de-duplication off")
        retained = out_ids if have_decoys else _ref_retained(rows, winners)
    else:
        retained_psms = _ref_retained(rows, winners)  # exact when no ties; with ties decoys are on and we use a predicate
        ent = lambda pid: rows[pid][lcol]  # noqa: E731
        if case["ties"]:
            # with ties the retained PSM set is the observed one (decoy output is always on in this class)
            pool = set(psm_obs)
            for pid in out_ids:
                require(pid in pool, "level-from-loser", f"{tag}: PSM {pid} is not a retained PSM but represents {lcol} {ent(pid)}")
        else:
            pool = retained_psms
            for pid in out_ids:
                require(pid in pool, "level-from-loser", f"{tag}: PSM {pid} is not a retained PSM but represents {lcol} {ent(pid)}")
        ents_out = {}
        for pid in out_ids:
            e = ent(pid)
            require(e not in ents_out, "entity-duplicated", f"{tag}: {lcol} {e} has two rows ({ents_out.get(e)}, {pid})")
            ents_out[e] = pid
        best = {}
        members = {}
        for pid in pool:
            e = ent(pid)
            members.setdefault(e, []).append(pid)
            if e not in best or rows[pid]["score"] > best[e]:
                best[e] = rows[pid]["score"]
        if any(len(v) >= 2 for v in members.values()):
            nt["peptide_multi"] = True
        if not case["ties"]:
            for e, m in best.items():
                w = [p for p in members[e] if rows[p]["score"] == m][0]
                if have_decoys or rows[w]["target"]:
                    require(e in ents_out, "entity-missing", f"{tag}: {lcol} {e} has no row")
                    require(ents_out[e] == w, "wrong-representative",
                            f"{tag}: {lcol} {e} is represented by {ents_out[e]} (score {rows[ents_out[e]]['score']}), best retained PSM is {w} (score {m})")
                else:
                    require(e not in ents_out, "loser-kept", f"{tag}: {lcol} {e} is won by a decoy but a target row is reported")
            exp_ids = {[p for p in members[e] if rows[p]["score"] == m][0] for e, m in best.items()}
            retained = exp_ids
        else:
            require(set(ents_out) == set(best), "entity-set",
                    f"{tag}: {len(set(best) - set(ents_out))} {lcol} entities missing, {len(set(ents_out) - set(best))} invented")
            for e, pid in ents_out.items():
                require(rows[pid]["score"] == best[e], "wrong-representative",
                        f"{tag}: {lcol} {e} is represented by score {rows[pid]['score']}, a retained PSM scores {best[e]}")
            retained = out_ids
    # ---- q-values on exactly the retained rows ------------------------------------------
    ret = sorted(retained)
    sc = [rows[p]["score"] for p in ret]
    tg = [rows[p]["target"] for p in ret]
    qref = dict(zip(ret, tdc_ref(sc, tg, True)))
    for name, f in (("targets", tdf), ("decoys", ddf)):
        if f is None:
            continue
        for pid, q in zip(f["PSMId"].tolist(), f["q-value"].tolist()):
            if pid not in qref:
                continue
            r = float(qref[pid])
            require(abs(float(q) - r) <= 2.5e-7 * r + 1e-12, "qvalue",
                    f"{name}.{tag}: {pid} q-value {q} but the formula on the {len(ret)} retained rows gives {qref[pid]}")
            counters["qvalues_checked"] += 1
    return retained


def _ref_retained(rows, winners):
    if winners is None:
        return set(rows)
    return {sorted(w, key=lambda i: rows[i]["pos"])[0] if len(w) == 1 else sorted(w)[0] for w in winners.values()}


def _check_tool(case, src, tmp, counters, brew_rollup, mpeps):
    out = tmp / "rolled"
    out.mkdir()
    base = case["tool_level"] if case["rollup"] else "psm"
    files_t = sorted(src.glob(f"*.targets.{base}s")) if base == "psm" else sorted(src.glob("*.targets.peptides"))
    files_d = sorted(src.glob(f"*.decoys.{base}s")) if base == "psm" else sorted(src.glob("*.decoys.peptides"))
    rows = {}
    for f, dec in [(p, False) for p in files_t] + [(p, True) for p in files_d]:
        df = _read(f)
        if len(df) == 0:
            # a header-only input has no inferable column types; the merger refuses mixed types by assertion.
            # Outside the stated domain ("previously written result files" with rows): skip the tool part.
            counters["tool_skipped_empty_input"] = counters.get("tool_skipped_empty_input", 0) + 1
            return False
        for d in df.to_dict("records"):
            require(d["PSMId"] not in rows, "harness-dup-id", "generator: PSMIds must be unique across collections")
            rows[d["PSMId"]] = {"decoy": dec, **d}
    if not rows:
        raise Rejected("no rows for the rollup tool")
    saved = mpeps.PEP_ALGORITHM["qvality"]
    mpeps.PEP_ALGORITHM["qvality"] = mpeps.PEP_ALGORITHM["verif_stub"]
    try:
        # the output root may be a string the input file names merely begin with ("c" vs. "c0.targets.psms"): only files
        # named "<root>.<...>" are the tool's own earlier outputs
        root = "c" if case["seed"] % 2 else "rollup"
        # (the streaming constants are small for the tool too: its result must not depend on them)
        with config_inject.chunk_sizes(confidence=case["conf_chunk"], merge=case["merge_chunk"]):
            guarded(brew_rollup.main, ["--level", base, "--src_dir", str(src), "--dest_dir", str(out), "--verbosity", "0"]
                    + (["--file_root", root] if root != "rollup" else []), sig="brew_rollup")
    finally:
        mpeps.PEP_ALGORITHM["qvality"] = saved
    have_extra = case["extra"] if case["rollup"] else []
    # rollup levels present after the standard column map
    lv_cols = {"peptide": "peptide"}
    for lv in have_extra:
        lv_cols[TOOL_COL[lv]] = lv
    from mokapot.brew_rollup import compute_rollup_levels

    tool_levels = [lv for lv in compute_rollup_levels(base if base == "psm" else "peptide") if lv in lv_cols]
    for lv in tool_levels:
        src_col = lv_cols[lv]
        tf = out / f"{root}.targets.{lv}s"
        dfp = out / f"{root}.decoys.{lv}s"
        require(tf.exists() and dfp.exists(), "tool-files", f"rollup output for level {lv} missing: {sorted(p.name for p in out.iterdir())}")
        got = {}
        for f, dec in ((tf, False), (dfp, True)):
            df = _read(f)
            prev = None
            for d in df.to_dict("records"):
                pid = d["psm_id"]
                require(pid in rows, "tool-invented-row", f"{f.name}: psm_id {pid} not in the input files")
                require(pid not in got, "tool-duplicate-row", f"{f.name}: psm_id {pid} twice")
                s = rows[pid]
                require(s["decoy"] == dec, "tool-wrong-file", f"{f.name}: {pid} came from a {'decoy' if s['decoy'] else 'target'} file")
                require(d["peptide"] == s["peptide"] and d["proteinIds"] == s["proteinIds"] and _close(float(d["score"]), float(s["score"])),
                        "tool-field-mismatch", f"{f.name}: {pid} fields differ from its input row")
                if prev is not None:
                    require(float(d["score"]) <= prev, "tool-not-sorted", f"{f.name}")
                prev = float(d["score"])
                got[pid] = d
                counters["rows_checked"] += 1
        ents = {}
        for pid in got:
            e = rows[pid][src_col]
            require(e not in ents, "tool-entity-duplicated", f"level {lv}: entity {e} has two rows")
            ents[e] = pid
        best = {}
        for pid, s in rows.items():
            e = s[src_col]
            if e not in best or float(s["score"]) > best[e]:
                best[e] = float(s["score"])
        require(set(ents) == set(best), "tool-entity-set", f"level {lv}: {len(set(best) - set(ents))} entities missing, {len(set(ents) - set(best))} invented")
        for e, pid in ents.items():
            require(float(rows[pid]["score"]) == best[e], "tool-wrong-representative",
                    f"level {lv}: entity {e} represented by score {rows[pid]['score']}, best input row has {best[e]}")
        ret = sorted(got)
        qref = dict(zip(ret, tdc_ref([float(rows[p]["score"]) for p in ret], [not rows[p]["decoy"] for p in ret], True)))
        for pid, d in got.items():
            r = float(qref[pid])
            require(abs(float(d["q_value"]) - r) <= 2.5e-7 * r + 1e-12, "tool-qvalue", f"level {lv}: {pid} q {d['q_value']} vs {qref[pid]}")
            counters["qvalues_checked"] += 1
    return True


# ---------------------------------------------------------------------------
# Command-line path: the de-duplication switch must reach assign_confidence (and the same competition rule applies)
# ---------------------------------------------------------------------------
def _cli_case(seed):
    import contextlib
    import io

    from mokapot import mokapot as cli

    rng = np.random.default_rng(seed)
    ns = int(rng.integers(120, 200))
    mults = [int(x) for x in rng.integers(1, 4, ns)]
    df, meta = datagen.psm_frame(seed, mults, key_arity=2, n_noise=2, sep=3.5, with_rid=False, n_peptides=60)
    for c in ("f0", "f1", "f2"):
        df[c] = df[c].round(5)
    key = list(zip(df["ScanNr"].tolist(), df["ExpMass"].tolist()))
    out = {}
    with scratch_dir() as tmp:
        for flag in (True, False):
            pin = tmp / f"in_{int(flag)}.pin"
            df.to_csv(pin, sep="\t", index=False)
            dest = tmp / f"out_{int(flag)}"
            args = [str(pin), "--dest_dir", str(dest), "--max_iter", "1", "--folds", "2", "--train_fdr", "0.3", "--test_fdr", "0.3",
                    "--keep_decoys", "--verbosity", "0", "--seed", "7", "--peps_algorithm", "hist_nnls"]
            if flag:
                args.append("--skip_deduplication")
            with contextlib.redirect_stderr(io.StringIO()), contextlib.redirect_stdout(io.StringIO()):
                guarded(cli.main, args, allowed=[(RuntimeError, "No PSMs|Failed to calibrate"), (ValueError, "unique scoring bins"), (SystemExit, ".*"),
                                (TypeError, "expected non-empty vector for x")],  # degenerate inputs of the real PEP estimator
                        sig="cli")
            t = _read(dest / "targets.psms")
            d = _read(dest / "decoys.psms")
            out[flag] = pd.concat([t.assign(_t=True), d.assign(_t=False)])
    full, dedup = out[True], out[False]
    n = len(df)
    require(len(full) == n and set(full["PSMId"]) == set(df["SpecId"]), "cli-skip-deduplication-ignored",
            f"--skip_deduplication: {len(full)} PSMs in the PSM-level results for {n} input PSMs ({ns} spectra)")
    score = dict(zip(full["PSMId"], full["score"]))
    kof = dict(zip(df["SpecId"], key))
    best = {}
    for pid, s in score.items():
        k = kof[pid]
        if k not in best or s > best[k][0]:
            best[k] = (s, {pid})
        elif s == best[k][0]:
            best[k][1].add(pid)
    require(len(dedup) == len(best), "cli-dedup-count", f"default run: {len(dedup)} PSMs for {len(best)} spectra")
    for pid in dedup["PSMId"]:
        require(pid in best[kof[pid]][1], "cli-wrong-winner", f"default run keeps {pid}, which is not a best PSM of its spectrum")
    return {"seed": int(seed), "rows": n, "spectra": ns}


CLI_NAME_PAIRS = [("a.pin", "b.pin"), ("hela.rep1.pin", "hela.rep2.pin"), ("run_1.pin", "run_2.pin"), ("x.v1.search.pin", "x.v2.search.pin"),
                  ("plate.A.tab", "plate.B.tab")]


def _cli_two_collections(seed):
    """Two PIN files on one command line, no --aggregate: every collection gets results of its own - one PSM per spectrum of
    that file, nothing of the other file - whatever the files are called."""
    import contextlib
    import io

    from mokapot import mokapot as cli

    rng = np.random.default_rng(seed)
    names = CLI_NAME_PAIRS[int(rng.integers(0, len(CLI_NAME_PAIRS)))]
    with scratch_dir() as tmp:
        ids, nspec = [], []
        for i, nm in enumerate(names):
            ns = int(rng.integers(110, 170))
            mults = [int(x) for x in rng.integers(1, 3, ns)]
            df, meta = datagen.psm_frame(seed + 17 * i, mults, key_arity=2, n_noise=2, sep=3.5, with_rid=False, n_peptides=60, id_prefix=f"c{i}_")
            for c in ("f0", "f1", "f2"):
                df[c] = df[c].round(5)
            df.to_csv(tmp / nm, sep="\t", index=False)
            ids.append(set(df["SpecId"]))
            nspec.append(len(set(zip(df["ScanNr"].tolist(), df["ExpMass"].tolist()))))
        dest = tmp / "out"
        args = [str(tmp / nm) for nm in names] + ["--dest_dir", str(dest), "--max_iter", "1", "--folds", "2", "--train_fdr", "0.3", "--test_fdr", "0.3",
                                                   "--keep_decoys", "--verbosity", "0", "--seed", "7", "--peps_algorithm", "hist_nnls"]
        with contextlib.redirect_stderr(io.StringIO()), contextlib.redirect_stdout(io.StringIO()):
            guarded(cli.main, args, allowed=[(RuntimeError, "No PSMs|Failed to calibrate"), (ValueError, "unique scoring bins"), (SystemExit, ".*"),
                                             (TypeError, "expected non-empty vector for x")], sig="cli")
        groups = {}
        for f in sorted(dest.iterdir()):
            for kind in (".targets.psms", ".decoys.psms", "targets.psms", "decoys.psms"):
                if f.name.endswith(kind):
                    groups.setdefault(f.name[: -len(kind)], []).append(f)
                    break
        found = [None, None]
        for pre, files in groups.items():
            got = set()
            for f in files:
                got |= set(_read(f)["PSMId"])
            owners = [i for i in (0, 1) if got & ids[i]]
            require(len(owners) == 1, "cli-collections-mixed",
                    f"inputs {names}: result files '{pre}*.psms' hold PSMs of {len(owners)} of the input files ({sorted(f.name for f in files)})")
            i = owners[0]
            require(found[i] is None, "cli-collections-mixed", f"inputs {names}: two result sets for input {i}")
            found[i] = len(got)
        for i in (0, 1):
            require(found[i] is not None, "cli-collection-missing",
                    f"inputs {names}: no PSM-level result file holds the PSMs of {names[i]} (files: {sorted(f.name for f in dest.iterdir())[:8]})")
            require(found[i] == nspec[i], "cli-collection-count", f"inputs {names}: {found[i]} PSMs reported for the {nspec[i]} spectra of {names[i]}")
    return {"seed": int(seed), "rows": sum(found), "names": list(names)}


def extra(tier, seed, shard, nshards, stats):
    reps = 1 if tier == "quick" else 6
    for r in range(reps):
        cseed = seed * 100003 + shard * 101 + r
        case = {"cli": True, "seed": cseed}
        stats.evaluations += 1
        try:
            info = _cli_case(cseed)
        except Rejected as rej:
            stats.rejected += 1
            stats.rejected_reasons[str(rej)[:80]] += 1
            continue
        except Violation as v:
            stats.failure = {"case": case, "signature": v.signature, "message": v.message}
            return
        stats.observe(case, {"nontrivial": True, "classes": ["cli-skip-deduplication"], "counters": {"cli_runs": 2, "rows_checked": info["rows"]}})
        # a second command-line history: two collections, separately reported
        case2 = {"cli2": True, "seed": cseed}
        stats.evaluations += 1
        try:
            info2 = _cli_two_collections(cseed)
        except Rejected as rej:
            stats.rejected += 1
            stats.rejected_reasons[str(rej)[:80]] += 1
            continue
        except Violation as v:
            stats.failure = {"case": case2, "signature": v.signature, "message": v.message}
            return
        stats.observe(case2, {"nontrivial": True, "classes": ["cli-two-collections", "cli-names-" + "+".join(info2["names"])],
                              "counters": {"cli_runs": 1, "rows_checked": info2["rows"]}})
