"""C04 - reported q-values control the FDR end to end, whatever the model capacity."""

from __future__ import annotations

import math

import numpy as np
import pandas as pd
from hypothesis import strategies as st

import config_inject
import datagen
import recorder
from brewlib import ALLOWED_BREW
from core import Violation, guarded, require, scratch_dir

ID = "C04"
LEVEL = "exploration"
LEVEL_TEXT = (
    "Statistical: false-discovery proportions measured against simulated ground truth; a per-dataset gross bound and a per-(learner, level, alpha) mean bound with a stated tolerance band. Detects leaks and gross mis-estimation, not small bias."
)
TECHNIQUE = (
    "Hypothesis-generated simulated datasets with known ground truth (exchangeable null targets and decoys) x learner "
    "capacity (linear SVM, fully grown tree, 1-NN, row-memorising estimator) x folds x training cap x prediction chunk "
    "size through brew -> assign_confidence; oracle = false-discovery proportion among accepted targets against alpha: "
    "a per-dataset gross bound plus a per-(learner, level, alpha) aggregated mean bound with a stated tolerance band"
)
RULE = (
    "case = (data seed, 1500-4000 spectra each with one target and one decoy PSM in random order, pi1 0.3-0.6, 3-6 "
    "features, separation 2-3 sigma, learner, folds 2-5, FDR 0.05/0.1/0.3, optional subset_max_train below the training "
    "size, optional prediction chunk smaller than the file, workers, one or two jointly modelled collections, optionally the "
    "returned fold models re-used in reversed order or saved and re-used in a fresh interpreter with another hash seed). Each case reports the FDP at alpha in "
    "{0.01, 0.02, 0.05, 0.1} at PSM and peptide level. Non-trivial: all folds trained and >= 30 targets accepted at "
    "alpha = 0.05. Distinct = distinct canonical JSON."
)
ASSUMPTIONS = [
    "statistical property: per dataset only gross violations are reported (accepted >= 100 and FDP > max(5 alpha, 0.25)); "
    "the aggregated bound is mean FDP <= 1.5 alpha + 4 SE + 1/mean(accepted) per (learner, level, alpha) cell with >= 8 "
    "replicates",
    "the band reflects a measured finite-sample liberal bias of cross-validated fold merging (known finding K2: "
    "1.03-1.2 x alpha with a linear SVM on 600-3000 spectra); it detects leaks and gross mis-estimation, not a 10 % bias",
    "PEP estimation replaced by the score-function stub",
]
ALPHAS = (0.01, 0.02, 0.05, 0.1)
LEARNERS = ["svc", "tree", "knn", "memo"]
MAX_REJECTED_FRACTION = 0.3


def budget(tier):
    if tier == "quick":
        return {"examples": 320, "shards": 16, "time_s": 100}
    return {"examples": 12000, "shards": 16, "time_s": 1800, "hard_s": 5400}


@st.composite
def _case(draw, tier):
    return {
        "seed": draw(st.integers(0, 2**31 - 1)),
        "n": draw(st.integers(1500, 2500 if tier == "quick" else 4000)),
        "pi1": draw(st.integers(30, 60)) / 100.0,
        "nfeat": draw(st.integers(3, 6)),
        "mu": draw(st.sampled_from([2.0, 2.5, 3.0])),
        "learner": draw(st.sampled_from(LEARNERS)),
        "folds": draw(st.integers(2, 5)),
        "fdr": draw(st.sampled_from([0.05, 0.1, 0.3])),
        "cap": draw(st.sampled_from([None, None, 0.5, 0.8])),
        "predict_chunk": draw(st.sampled_from([None, None, 0.37, 0.61, 0.9])),
        "workers": draw(st.sampled_from([1, 1, 2, 4])),
        "rng": draw(st.integers(0, 10**6)),
        "ncoll": draw(st.sampled_from([1, 1, 2])),
        # history: feed the returned fold models back (reversed order) / save them and re-use them in a fresh interpreter
        "reuse": draw(st.sampled_from([None] * 8 + ["reversed", "reversed", "other-process"])),
    }


def strategy(tier):
    return _case(tier)


def _simulate(case):
    rng = np.random.default_rng(case["seed"])
    n, k = case["n"], case["nfeat"]
    correct_spec = rng.random(n) < case["pi1"]
    good_pool = datagen.peptide_pool(rng, max(20, n // 6), prefix="G")
    null_pool = datagen.peptide_pool(rng, n, prefix="N")
    dec_pool = datagen.peptide_pool(rng, n, prefix="D")
    rows = []
    for s in range(n):
        order = (True, False) if rng.random() < 0.5 else (False, True)
        for is_t in order:
            corr = bool(is_t and correct_spec[s])
            feats = rng.normal(case["mu"] if corr else 0.0, 1.0, k)
            if corr:
                pep = good_pool[int(rng.integers(0, len(good_pool)))]
            elif is_t:
                pep = null_pool[int(rng.integers(0, n))]
            else:
                pep = dec_pool[int(rng.integers(0, n))]
            rows.append((f"psm{len(rows)}", 1 if is_t else -1, f"run{s % 3}.mzML", 1000 + s + case.get("scan_offset", 0), round(700.0 + s * 0.5, 2), *[round(float(x), 5) for x in feats], pep,
                         "P" if is_t else "decoy_P", corr))
    cols = ["SpecId", "Label", "filename", "ScanNr", "ExpMass"] + [f"f{j}" for j in range(k)] + ["Peptide", "Proteins", "_correct"]
    df = pd.DataFrame(rows, columns=cols)
    truth = dict(zip(df["SpecId"], df["_correct"]))
    df = df.drop(columns="_correct")
    return df, truth


def _model(case):
    import mokapot
    from sklearn.neighbors import KNeighborsClassifier
    from sklearn.svm import LinearSVC
    from sklearn.tree import DecisionTreeClassifier

    f = case["fdr"]
    if case["learner"] == "svc":
        return mokapot.Model(LinearSVC(dual=False), train_fdr=f, max_iter=3, rng=case["rng"])
    if case["learner"] == "tree":
        return mokapot.Model(DecisionTreeClassifier(random_state=0), train_fdr=f, max_iter=3, rng=case["rng"])
    if case["learner"] == "knn":
        return mokapot.Model(KNeighborsClassifier(1), train_fdr=f, max_iter=2, rng=case["rng"])
    return mokapot.Model(recorder.Memo(log="c04"), scaler="as-is", train_fdr=f, max_iter=3, rng=case["rng"])


def check(case):
    import mokapot

    config_inject.install_pep_stub()
    ncoll = case.get("ncoll", 1)
    sims = []
    for ci in range(ncoll):
        # other spectrum keys in the second collection, so that its fold assignment differs from the first one's
        sub = {**case, "seed": case["seed"] + 7717 * ci, "n": case["n"] if ci == 0 else max(600, case["n"] * 2 // 3), "scan_offset": 50021 * ci}
        df, truth = _simulate(sub)
        if ci:
            df["SpecId"] = [f"c{ci}_{x}" for x in df["SpecId"]]
            truth = {f"c{ci}_{k}": v for k, v in truth.items()}
        sims.append((df, truth))
    feats = [f"f{j}" for j in range(case["nfeat"])]
    offset = 0
    for ci, (df, truth) in enumerate(sims):
        if case["learner"] == "memo":
            df.insert(5 + case["nfeat"], "rid", np.arange(offset, offset + len(df), dtype=float))
        offset += len(df)
    if case["learner"] == "memo":
        feats = feats + ["rid"]
    n = len(sims[0][0])
    counters = {}
    with scratch_dir() as tmp:
        dss = []
        for ci, (df, truth) in enumerate(sims):
            meta = {"key_cols": ["filename", "ScanNr", "ExpMass"], "features": feats, "levels": ["Peptide"], "is_target": (df["Label"] == 1).values}
            path = tmp / f"sim{ci}.pin"
            datagen.write_table(df, path)
            dss.append(datagen.build_ondisk(path, df, meta))
        cap = None
        ntot = sum(len(d) for d, _ in sims)
        if case["cap"]:
            cap = int(case["cap"] * ntot * (case["folds"] - 1) / case["folds"])
        pc = int(case["predict_chunk"] * n) if case["predict_chunk"] else None
        try:
            with config_inject.chunk_sizes(predict=pc):
                _, models, scores, descs = guarded(mokapot.brew, dss, _model(case), test_fdr=case["fdr"], folds=case["folds"],
                                                   max_workers=case["workers"], rng=case["rng"], subset_max_train=cap,
                                                   allowed=ALLOWED_BREW + [(ValueError, "Cannot take a larger sample")], sig="brew")
        finally:
            recorder.drop_log("c04")
        trained = all(m.is_trained for m in models)
        prefixes = [f"c{ci}" for ci in range(ncoll)] if ncoll > 1 else [None]
        reuse = case.get("reuse") if (trained and ncoll == 1) else None
        if reuse == "reversed":
            # the same analysis with the trained fold models handed back in reversed order: every PSM must again be scored
            # by the model that has not seen it
            dss = [datagen.build_ondisk(d.filename, sims[i][0], {"key_cols": ["filename", "ScanNr", "ExpMass"], "features": feats, "levels": ["Peptide"],
                                                                  "is_target": (sims[i][0]["Label"] == 1).values}) for i, d in enumerate(dss)]
            _, models2, scores, descs = guarded(mokapot.brew, dss, list(reversed(models)), test_fdr=case["fdr"], folds=case["folds"],
                                                max_workers=case["workers"], rng=case["rng"], allowed=ALLOWED_BREW, sig="brew-reuse")
        elif reuse == "other-process":
            scores, descs = _reuse_in_other_process(case, tmp, models, sims[0][0], feats)
            dss = [datagen.build_ondisk(dss[0].filename, sims[0][0], {"key_cols": ["filename", "ScanNr", "ExpMass"], "features": feats,
                                                                    "levels": ["Peptide"], "is_target": (sims[0][0]["Label"] == 1).values})]
        guarded(mokapot.assign_confidence, dss, max_workers=1, scores=[np.asarray(s, dtype=float).ravel() for s in scores],
                descs=list(descs), eval_fdr=case["fdr"], dest_dir=tmp, prefixes=prefixes, decoys=False, peps_algorithm="verif_stub",
                sig="assign_confidence")
        res = {}
        for ci, (df, truth) in enumerate(sims):
            pre = f"c{ci}." if ncoll > 1 else ""
            for level in ("psms", "peptides"):
                t = pd.read_csv(tmp / f"{pre}targets.{level}", sep="\t", usecols=["PSMId", "q-value"])
                wrong = ~t["PSMId"].map(truth).astype(bool).values
                q = t["q-value"].values
                for a in ALPHAS:
                    acc = q <= a
                    res[(ci, level, a)] = (int(acc.sum()), int((acc & wrong).sum()))
    r05 = res[(0, "psms", 0.05)][0]
    for (ci, level, a), (R, V) in res.items():
        fdp = V / max(1, R)
        if R >= 100:
            require(fdp <= max(5 * a, 0.25), "gross-fdp",
                    f"{level} at q<={a} (collection {ci + 1} of {ncoll}): {V} of {R} accepted targets are incorrect (FDP {fdp:.3f}) with learner "
                    f"{case['learner']}, folds {case['folds']}, cap {cap}, prediction chunk {pc}, workers {case['workers']}")
        if trained:
            # FDR = E[FDP] with FDP = 0 when nothing is accepted: every trained replicate counts
            cell = f"{case['learner']}|{level}|{a}"
            counters[cell + "|n"] = counters.get(cell + "|n", 0) + 1
            counters[cell + "|sum"] = counters.get(cell + "|sum", 0.0) + fdp
            counters[cell + "|sumsq"] = counters.get(cell + "|sumsq", 0.0) + fdp * fdp
            counters[cell + "|R"] = counters.get(cell + "|R", 0) + R
    classes = [case["learner"], f"folds{case['folds']}"]
    if cap:
        classes.append("cap-active")
    if pc:
        classes.append("partial-predict-chunk")
    if ncoll > 1:
        classes.append("two-collections")
    if not trained:
        classes.append("fallback-or-untrained")
    if reuse:
        classes.append("models-reused-" + reuse)
    return {"nontrivial": trained and r05 >= 30, "classes": classes, "counters": counters}


def _reuse_in_other_process(case, tmp, models, df, feats):
    """Save the fold models, then load them in a fresh interpreter with another PYTHONHASHSEED and score the same file."""
    import json
    import os
    import subprocess
    import sys

    from core import HARNESS, REPO, Violation

    paths = []
    for i, m in enumerate(models):
        p = tmp / f"model_{i}.pkl"
        m.save(p)
        paths.append(str(p))
    job = {"models": paths, "data": str(tmp / "sim0.pin"), "feats": feats, "folds": case["folds"], "fdr": case["fdr"], "rng": case["rng"],
           "out": str(tmp / "scores.npy")}
    code = ("import sys; sys.path.insert(0, %r); import core; core.bootstrap(); from props import c04; c04.child_main()" % str(HARNESS))
    env = dict(os.environ, PYTHONHASHSEED=str(1 + case["seed"] % 4000), VERIF_REPO=REPO)
    p = subprocess.run([sys.executable, "-c", code], input=json.dumps(job), capture_output=True, text=True, env=env, timeout=900)
    if p.returncode != 0:
        raise Violation("reuse-in-other-process-failed", (p.stderr or "")[-400:])
    return [np.load(job["out"])], [True]


def child_main():
    import json
    import sys
    from pathlib import Path

    import mokapot
    import pandas as pd

    job = json.loads(sys.stdin.read())
    df = pd.read_csv(job["data"], sep="\t")
    meta = {"key_cols": ["filename", "ScanNr", "ExpMass"], "features": job["feats"], "levels": ["Peptide"], "is_target": (df["Label"] == 1).values}
    ds = datagen.build_ondisk(Path(job["data"]), df, meta)
    models = [mokapot.load_model(Path(m)) for m in job["models"]]
    _, _, scores, descs = mokapot.brew([ds], models, test_fdr=job["fdr"], folds=job["folds"], rng=job["rng"])
    np.save(job["out"], np.asarray(scores[0], dtype=float).ravel())


def aggregate(tier, merged):
    """Cross-shard statistical bound per (learner, level, alpha) cell."""
    cells = {}
    for k, v in merged.counters.items():
        if k.count("|") != 3:
            continue
        learner, level, a, what = k.split("|")
        cells.setdefault((learner, level, float(a)), {})[what] = v
    report = {}
    worst = None
    for (learner, level, a), c in sorted(cells.items()):
        n = c.get("n", 0)
        if n < 1:
            continue
        mean = c["sum"] / n
        var = max(0.0, c["sumsq"] / n - mean * mean)
        se = math.sqrt(var / n) if n > 1 else float("inf")
        meanR = c["R"] / n
        bound = 1.5 * a + 4 * se + 1.0 / max(1.0, meanR)
        report[f"{learner}/{level}/{a}"] = {"replicates": int(n), "mean_fdp": round(mean, 5), "se": round(se, 5) if se != float("inf") else None,
                                           "ratio_to_alpha": round(mean / a, 3), "mean_accepted": round(meanR, 1), "bound": round(bound, 5)}
        if n >= 8 and mean > bound:
            if worst is None or mean / a > worst[0]:
                worst = (mean / a, learner, level, a, mean, bound, n)
    if worst:
        _, learner, level, a, mean, bound, n = worst
        raise Violation("mean-fdp", f"mean FDP {mean:.4f} over {int(n)} datasets exceeds the bound {bound:.4f} at alpha={a} "
                                    f"({level} level, learner {learner}); cells: {report}")
    return report
