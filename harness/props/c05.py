"""C05 - results do not depend on chunk sizes, worker count, thread timing or file format."""

from __future__ import annotations

import numpy as np
import pandas as pd
from hypothesis import strategies as st

import config_inject
import datagen
import recorder
from brewlib import ALLOWED_BREW
from core import Rejected, Violation, guarded, require, scratch_dir

ID = "C05"
LEVEL = "exploration"
LEVEL_TEXT = (
    "Differential testing of one dataset under a reference and a drawn configuration (chunk sizes, workers, injected delays, format); held on all generated pairs. Thread interleavings are perturbed, not enumerated."
)
TECHNIQUE = (
    "differential testing over Hypothesis-generated (dataset, configuration) pairs: the same table run through "
    "read_pin -> brew -> assign_confidence under a reference configuration and under drawn chunk sizes / workers / "
    "injected task delays / Parquet row-group layouts; outputs must agree"
)
RULE = (
    "case = dataset (120-400 rows, duplicated spectra, 3-25 features, key arity, label encoding) + configuration B "
    "(six chunk constants from {1,2,3,n-1,n,n+1,n/2+-1,random}, workers 1-16, delay table, tsv or parquet with drawn "
    "row-group size) + flags; configuration A = all chunks larger than the file, 1 worker, tsv, no delays. "
    "Non-trivial: B has a prediction or confidence or training-read chunk smaller than the file, or >=2 workers with a "
    "non-constant delay table, or Parquet with >=2 row groups. Distinct = distinct canonical JSON."
)
ASSUMPTIONS = [
    "scores agree within rtol 1e-9 / atol 1e-12, result-file numeric columns within 1e-9 (floating-point summation "
    "and text-parser error); row order must be identical when the reference scores are tie-free",
    "feature values are written with 5 decimals so that text and Parquet carry the same numbers",
    "thread completion order is perturbed by injected sleeps; the OS scheduler itself is not controlled",
    "deterministic learners only (PercolatorModel = default, LinearSVC(dual=False), non-learning recorder)",
]


def budget(tier):
    if tier == "quick":
        return {"examples": 160, "shards": 16, "time_s": 75}
    return {"examples": 3200, "shards": 16, "time_s": 1200}


def _chunk(draw, n):
    kind = draw(st.sampled_from(["big", "big", "one", "two", "three", "n-1", "n", "n+1", "half-", "half+", "rand", "rand"]))
    return {
        "big": None, "one": 1, "two": 2, "three": 3, "n-1": max(1, n - 1), "n": n, "n+1": n + 1,
        "half-": max(1, n // 2 - 1), "half+": n // 2 + 1,
    }.get(kind) if kind != "rand" else draw(st.integers(2, n))


@st.composite
def _case(draw, tier):
    big = tier != "quick"
    ns = draw(st.integers(150, 400 if big else 260))
    mults = datagen.draw_mults(draw, st, (ns, ns), draw(st.integers(1, 3)))
    n = sum(mults)
    nfeat = draw(st.integers(3, 25))
    workers = draw(st.sampled_from([1, 1, 1, 2, 3, 4, 8, 16]))
    delays = draw(st.lists(st.integers(0, 12), min_size=2, max_size=5)) if workers > 1 and draw(st.booleans()) else []
    fmt = draw(st.sampled_from(["tsv", "tsv", "parquet"]))
    # heavy configurations (1-row chunks) are expensive: at most two of them per case
    chunks = {k: _chunk(draw, n) for k in ("confidence", "merge", "predict", "readall", "rowscan")}
    ones = [k for k, v in chunks.items() if v is not None and v <= 3]
    for k in ones[2:]:
        chunks[k] = draw(st.integers(5, n))
    chunks["colscan"] = draw(st.sampled_from([None, 1, 2, 3, 4, 5, 7, 19]))
    return {
        "seed": draw(st.integers(0, 2**31 - 1)),
        "mults": mults,
        "nfeat": nfeat,
        "key": draw(st.integers(1, 4)),
        "label_enc": draw(st.sampled_from(["pm1", "01"])),
        "folds": draw(st.integers(2, 4)),
        "rng": draw(st.integers(0, 10**6)),
        "learner": draw(st.sampled_from(["svc", "perc", "perc", "lin"])),
        "dedup": draw(st.sampled_from([True, True, False])),
        # ensemble rescoring (every PSM gets the average of all fold models) - same switch in both configurations
        "ensemble": draw(st.sampled_from([False, False, False, True])),
        "rollup": draw(st.sampled_from([True, True, False])),
        "whole_feature": draw(st.sampled_from([False, True])),
        "key_gap": draw(st.sampled_from([False, False, True])),
        "B": {
            "chunks": chunks,
            "workers": workers,
            "delays": delays,
            "fmt": fmt,
            "row_group": draw(st.sampled_from([None, 1, 7, 64, max(1, n - 1), n])) if fmt == "parquet" else None,
        },
    }


def strategy(tier):
    return _case(tier)


def _frame(case):
    df, meta = datagen.psm_frame(case["seed"], case["mults"], key_arity=case["key"], n_noise=case["nfeat"] - 1,
                                 sep=3.5, with_rid=(case["learner"] == "lin"), label_enc=case["label_enc"])
    for c in meta["features"]:
        if c != "rid":
            df[c] = df[c].round(5)
    if "ExpMass" in df:
        df["ExpMass"] = df["ExpMass"].round(4)
    if case.get("whole_feature"):
        # a mostly whole-valued feature (isotope error, missed cleavages ...) written compactly in text files ("2", not "2.0");
        # the few fractional values come late in the file, so early chunks of a text reader look like integers
        rng = np.random.default_rng(case["seed"] + 17)
        n = len(df)
        v = rng.integers(0, 4, n).astype(float)
        late = np.arange(n) >= (2 * n) // 3
        v = np.where(late & (rng.random(n) < 0.3), v + 0.5, v)
        pos = list(df.columns).index("rid") if "rid" in df.columns else list(df.columns).index("Peptide")
        df.insert(pos, "isoErr", v)
        feats = [f for f in meta["features"] if f != "rid"] + ["isoErr"] + (["rid"] if "rid" in meta["features"] else [])
        meta = {**meta, "features": feats}
    if case.get("key_gap") and "ExpMass" in df:
        # the measured mass is missing for some spectra (all PSMs of such a spectrum lack it)
        gap = (df["ScanNr"].values % 7) == 0
        df["ExpMass"] = df["ExpMass"].where(~gap, np.nan)
    return df, meta


def _run(case, cfg, tmp, df):
    import mokapot
    from sklearn.svm import LinearSVC

    config_inject.install_pep_stub()
    ext = ".parquet" if cfg["fmt"] == "parquet" else ".pin"
    path = tmp / f"data{ext}"
    wdf = df
    if ext == ".pin" and "isoErr" in df.columns:
        wdf = df.copy()
        wdf["isoErr"] = [("%d" % v) if float(v).is_integer() else repr(float(v)) for v in df["isoErr"]]
    datagen.write_table(wdf, path, row_group=cfg.get("row_group"))
    out = tmp / "out"
    out.mkdir()
    res = {}
    with config_inject.chunk_sizes(**cfg["chunks"]), config_inject.task_delays(cfg["delays"]):
        psms = mokapot.read_pin([path], max_workers=cfg["workers"])
        p = psms[0]
        res["parsed"] = {
            "features": list(p.feature_columns),
            "spectrum_columns": list(p.spectrum_columns),
            "metadata_columns": list(p.metadata_columns),
            "level_columns": list(p.level_columns),
            "columns": list(p.columns),
            "spectra": p.spectra_dataframe.reset_index(drop=True).copy(),
            "spectra_index": list(p.spectra_dataframe.index),
        }
        if case["learner"] == "perc":
            # the default model: hyper-parameter search with position-based CV splits (sensitive to training row order)
            model = mokapot.PercolatorModel(train_fdr=0.26, max_iter=2, rng=case["rng"])
        elif case["learner"] == "svc":
            model = mokapot.Model(LinearSVC(dual=False, random_state=1), train_fdr=0.26, max_iter=3, rng=case["rng"])
        else:
            model = recorder.make_model(recorder.Lin(log="c05", eps=0.0), train_fdr=0.26, max_iter=2, override=True)
        _, models, scores, descs = mokapot.brew(psms, model, test_fdr=0.26, folds=case["folds"],
                                                max_workers=cfg["workers"], rng=case["rng"], ensemble=bool(case.get("ensemble")))
        res["scores"] = [np.asarray(s, dtype=float).ravel() for s in scores]
        res["descs"] = list(descs)
        mokapot.assign_confidence(psms, max_workers=cfg["workers"], scores=[np.asarray(s, dtype=float).ravel() for s in scores],
                                  descs=list(descs), eval_fdr=0.26, dest_dir=out, prefixes=[None], decoys=True,
                                  deduplication=case["dedup"], do_rollup=case["rollup"], peps_algorithm="verif_stub")
    recorder.drop_log("c05")
    files = {}
    for f in sorted(out.iterdir()):
        files[f.name] = pd.read_csv(f, sep="\t", float_precision="round_trip", dtype={"PSMId": str})
    res["files"] = files
    return res


def check(case):
    df, meta = _frame(case)
    n = len(df)
    cfgA = {"chunks": {k: 10 * n + 1000 for k in ("confidence", "merge", "predict", "readall", "rowscan")} | {"colscan": 10_000},
            "workers": 1, "delays": [], "fmt": "tsv", "row_group": None}
    cfgB = {**case["B"], "chunks": {k: v for k, v in case["B"]["chunks"].items()}}
    with scratch_dir() as ta:
        try:
            A = guarded(_run, case, cfgA, ta, df, allowed=ALLOWED_BREW, sig="reference-config")
            a_err = None
        except Rejected as r:
            A, a_err = None, str(r)
    with scratch_dir() as tb:
        try:
            B = guarded(_run, case, cfgB, tb, df, allowed=ALLOWED_BREW, sig="configB")
            b_err = None
        except Rejected as r:
            B, b_err = None, str(r)
        except Violation as v:
            if a_err is not None:
                raise
            raise Violation("fails-only-under-config:" + v.signature.split(":", 1)[-1],
                            f"succeeds with reference configuration but fails with {cfgB}: {v.message}") from None
    if a_err is not None or b_err is not None:
        require((a_err is None) == (b_err is None), "success-differs",
                f"reference: {a_err or 'ok'} / configuration B {cfgB}: {b_err or 'ok'}")
        raise Rejected(a_err)
    # ---- parsed dataset -------------------------------------------------------
    pa_, pb = A["parsed"], B["parsed"]
    for k in ("features", "spectrum_columns", "metadata_columns", "level_columns", "columns"):
        require(pa_[k] == pb[k], "parsed-differs", f"{k}: {pa_[k]} vs {pb[k]}")
    sa, sb = pa_["spectra"], pb["spectra"]
    require(list(sa.columns) == list(sb.columns) and len(sa) == len(sb), "parsed-differs", "spectra frame shape")
    for c in sa.columns:
        if sa[c].dtype.kind == "f":
            require(bool(np.allclose(sa[c].values, sb[c].values.astype(float), rtol=1e-9, atol=0, equal_nan=True)), "parsed-differs", f"spectra column {c}")
        else:
            require(sa[c].astype(str).tolist() == sb[c].astype(str).tolist(), "parsed-differs", f"spectra column {c} (values or row order)")
    # ---- scores ------------------------------------------------------------------
    require(A["descs"] == B["descs"], "descs-differ", f"{A['descs']} vs {B['descs']}")
    for x, y in zip(A["scores"], B["scores"]):
        require(len(x) == len(y) == n, "score-length", f"{len(x)} vs {len(y)} for {n} rows")
        bad = ~np.isclose(x, y, rtol=1e-9, atol=1e-12)
        require(not bad.any(), "scores-differ",
                f"{int(bad.sum())} of {n} scores differ between reference and configuration B {cfgB}; max abs diff {float(np.max(np.abs(x - y))):.3g}")
    ties = len(np.unique(A["scores"][0])) < n  # calibration maps one PSM per fold to exactly 0 (and often one to -1)
    # ---- result files ------------------------------------------------------------
    require(sorted(A["files"]) == sorted(B["files"]), "files-differ", f"{sorted(A['files'])} vs {sorted(B['files'])}")
    tie_ambiguous = 0
    for name in A["files"]:
        fa, fb = A["files"][name], B["files"][name]
        require(list(fa.columns) == list(fb.columns), "file-columns", name)
        for f, lab in ((fa, "reference"), (fb, "configuration B")):
            sc = f["score"].values.astype(float)
            require(bool(np.all(np.diff(sc) <= 0)), "file-not-sorted", f"{name} ({lab}) is not in non-increasing score order")
        if set(fa["PSMId"]) != set(fb["PSMId"]):
            # only an exact score tie between competitors of one spectrum / entity may legitimately change the winner
            diff = set(fa["PSMId"]) ^ set(fb["PSMId"])
            sa_ = dict(zip(fa["PSMId"], fa["score"]))
            sb_ = dict(zip(fb["PSMId"], fb["score"]))
            tied_scores = {v for v, c in zip(*np.unique(A["scores"][0], return_counts=True)) if c > 1}
            ok = ties and all(any(np.isclose((sa_ | sb_)[p], t, rtol=1e-9, atol=1e-12) for t in tied_scores) for p in diff)
            require(ok, "file-rows", f"{name}: row sets differ under {cfgB}: {sorted(diff)[:4]} ({len(fa)} vs {len(fb)} rows)")
            tie_ambiguous += 1
            continue
        # canonical order inside groups of exactly tied scores
        ca = fa.sort_values(["score", "PSMId"], ascending=[False, True], kind="stable").reset_index(drop=True)
        cb = fb.sort_values(["score", "PSMId"], ascending=[False, True], kind="stable").reset_index(drop=True)
        if not ties:
            require(fa["PSMId"].tolist() == fb["PSMId"].tolist(), "file-row-order", f"{name}: row order differs under {cfgB}")
        if ca["PSMId"].tolist() != cb["PSMId"].tolist():
            # scores equal within tolerance but not bit-identical may swap neighbours: compare by id instead
            cb = cb.set_index("PSMId").loc[ca["PSMId"]].reset_index()
        for c in fa.columns:
            if ca[c].dtype.kind in "fi":
                require(bool(np.allclose(ca[c].values.astype(float), cb[c].values.astype(float), rtol=1e-9, atol=1e-12)),
                        "file-values", f"{name}: column {c} differs under {cfgB}")
            else:
                require(ca[c].astype(str).tolist() == cb[c].astype(str).tolist(), "file-values", f"{name}: column {c} differs")
    ch = case["B"]["chunks"]
    classes = []
    small = [k for k in ("predict", "confidence", "readall", "merge", "rowscan") if ch.get(k) is not None and ch[k] < n]
    classes += [f"small-{k}" for k in small]
    if ch.get("colscan"):
        classes.append("colscan-set")
    if case["B"]["workers"] > 1:
        classes.append("workers>1")
    if case["B"]["delays"] and len(set(case["B"]["delays"])) > 1:
        classes.append("delays")
    if case["B"]["fmt"] == "parquet":
        classes.append("parquet")
        if case["B"]["row_group"] and case["B"]["row_group"] < n:
            classes.append("multi-row-group")
    if ties:
        classes.append("ties")
    if not case["dedup"]:
        classes.append("dedup-off")
    if case.get("ensemble"):
        classes.append("ensemble")
    classes.append(case["learner"])
    if case.get("whole_feature"):
        classes.append("whole-valued-feature-written-compactly")
    if case.get("key_gap") and case["key"] >= 2:
        classes.append("spectrum-key-with-missing-values")
    nontrivial = bool(set(small) & {"predict", "confidence", "readall"}) or "delays" in classes or "multi-row-group" in classes
    return {"nontrivial": nontrivial, "classes": classes, "counters": {"files_compared": len(A["files"]), "scores_compared": n, "tie_ambiguous_files": tie_ambiguous}}
