"""C06 - PEPs are probabilities, monotone in score, and aligned with their PSM."""

from __future__ import annotations

from pathlib import Path

import numpy as np
import pandas as pd
from hypothesis import strategies as st

import config_inject
import datagen
from core import Rejected, guarded, require, scratch_dir

ID = "C06"
LEVEL = "exploration"
TECHNIQUE = (
    "Hypothesis-generated score/label vectors (mixture shapes, sizes, ties, arbitrary input order) through every "
    "selectable PEP and q-value algorithm; oracle = range, score-monotonicity, tie equality, permutation-equivariance, "
    "a differential against triqler's own per-score assignment for qvality, and alignment of the PEP column of result "
    "files with their rows"
)
RULE = (
    "case = (n_t, n_d in [50, 1500] (small sizes over-represented), decoy law normal/gumbel/gamma, target mixture pi1 0.1-0.8 and separation 1-5 "
    "sigma, optional rounding to 1-3 decimals (ties), data seed, permutation seed, algorithm in {qvality, kde_nnls, "
    "hist_nnls, from_counts, from_peps}, optional file-level history: assign_confidence called twice with the same score list, "
    "scores handed over as higher- or lower-is-better, one or two collections, the latter combined by brew_rollup). Non-trivial: both classes "
    ">= 50 and the input is not sorted by score. Distinct = distinct canonical JSON."
)
ASSUMPTIONS = [
    "tolerance 1e-9 on monotonicity and on equivariance for qvality / from_counts; 1e-3 on equivariance for the NNLS-based "
    "estimators (their active-set solver amplifies summation noise to ~1e-4, measured), where up to 2 % of the positions may "
    "deviate more (the fit is ill-determined where the target density vanishes)",
    "degeneracy errors of the third-party estimators (triqler 'unique scoring bins', singular KDE) are deliberate "
    "rejections and must stay rare",
    "qvality alignment is judged against triqler's own output on the sorted scores (PEP is a function of the score)",
]
PEP_ALGOS = ["qvality", "kde_nnls", "hist_nnls"]
Q_ALGOS = ["from_counts", "from_peps"]
MAX_REJECTED_FRACTION = 0.10
ALLOWED = [
    (SystemExit, r"unique scoring bins|no decoy hits|no target hits"),
    (np.linalg.LinAlgError, r".*"),
    (ValueError, r"singular|array must not contain infs or NaNs|expected non-empty vector"),
    # pi0 slope fit on an empty range: the decoy histogram peaks in its first bin (few, skewed scores) - a
    # degenerate input for the histogram estimators, like triqler's "unique scoring bins"
    (TypeError, r"expected non-empty vector for x"),
]


def budget(tier):
    if tier == "quick":
        return {"examples": 640, "shards": 16, "time_s": 90}
    return {"examples": 38400, "shards": 16, "time_s": 1500}


@st.composite
def _case(draw, tier):
    big = tier != "quick"
    if draw(st.sampled_from([False] * 24 + [True])):
        # results written to an SQLite database instead of text / Parquet files
        return {"kind": "sqlite", "seed": draw(st.integers(0, 2**31 - 1)), "n": draw(st.integers(80, 300)), "decoys": draw(st.booleans()),
                "fmt": draw(st.sampled_from(["tsv", "parquet"])), "lowbetter": draw(st.booleans())}
    return {
        "seed": draw(st.integers(0, 2**31 - 1)),
        "nt": draw(st.one_of(st.integers(50, 150), st.integers(100, 1500 if big else 700))),
        "nd": draw(st.one_of(st.integers(50, 150), st.integers(100, 1500 if big else 700))),
        "law": draw(st.sampled_from(["normal", "gumbel", "gamma"])),
        "pi1": draw(st.integers(10, 80)) / 100.0,
        "sep": draw(st.sampled_from([1.0, 2.0, 3.0, 5.0])),
        "round": draw(st.sampled_from([None, None, 1, 2, 3])),
        "perm": draw(st.integers(0, 2**31 - 1)),
        "algo": draw(st.sampled_from(["qvality", "kde_nnls"] + ["hist_nnls"] * 6 + ["from_counts"] * 3 + ["from_peps"] * 4)),
        "file_level": draw(st.sampled_from([False, False, False, True])),
    }


def strategy(tier):
    return _case(tier)


def _data(case):
    rng = np.random.default_rng(case["seed"])
    nt, nd = case["nt"], case["nd"]

    def null(n):
        if case["law"] == "normal":
            return rng.normal(0, 1, n)
        if case["law"] == "gumbel":
            return rng.gumbel(0, 1, n)
        return rng.gamma(4.0, 0.5, n)

    d = null(nd)
    correct = rng.random(nt) < case["pi1"]
    t = np.where(correct, null(nt) + case["sep"] * (1.0 if case["law"] != "gamma" else 1.0), null(nt))
    scores = np.concatenate([t, d])
    targets = np.concatenate([np.ones(nt, bool), np.zeros(nd, bool)])
    if case["round"] is not None:
        scores = np.round(scores, case["round"])
    p = np.random.default_rng(case["seed"] ^ 0xABCDEF).permutation(len(scores))
    return scores[p].astype(float), targets[p]


def _func(algo):
    from mokapot import peps, qvalues

    if algo in PEP_ALGOS:
        return lambda s, t: peps.peps_from_scores(s, t, algo)
    return lambda s, t: qvalues.qvalues_from_scores(s, t, algo)


def _triqler(scores, targets):
    from triqler import qvality

    old, qvality.VERB = qvality.VERB, 0
    try:
        _, peps = qvality.getQvaluesFromScores(scores[targets].copy(), scores[~targets].copy(), includeDecoys=True,
                                               includePEPs=True, tdcInput=False)
    finally:
        qvality.VERB = old
    order = np.argsort(-scores, kind="stable")
    return np.sort(scores)[::-1], np.asarray(peps, dtype=float), order


def _check_rollup_peps(case, algo, src, counters):
    """The stand-alone rollup tool re-estimates PEPs for the combined rows of every level it writes."""
    from mokapot import brew_rollup

    guarded(brew_rollup.main, ["--level", "peptide", "--src_dir", str(src), "--dest_dir", str(src), "--verbosity", "0",
                               "--peps_algorithm", algo], allowed=ALLOWED + [(ValueError, "Value .* exceeds|should be descending")],
            sig="brew_rollup")
    tf = pd.read_csv(src / "rollup.targets.peptides", sep="\t", float_precision="round_trip")
    dfl = pd.read_csv(src / "rollup.decoys.peptides", sep="\t", float_precision="round_trip")
    for fr, nm in ((tf, "targets"), (dfl, "decoys")):
        pp = fr["posterior_error_prob"].values.astype(float)
        sc = fr["score"].values.astype(float)
        require(bool(np.all(np.diff(sc) <= 0)), "rollup-order", f"rollup.{nm}.peptides is not in non-increasing score order")
        require(bool(np.all(np.diff(pp) >= -1e-9)), "rollup-pep-order",
                f"rollup.{nm}.peptides: the PEP decreases {int((np.diff(pp) < -1e-9).sum())} times while the score worsens (algorithm {algo})")
    allr = pd.concat([tf.assign(_t=True), dfl.assign(_t=False)]).sort_values("score", ascending=False, kind="stable")
    ls, lt = allr["score"].values.astype(float), allr["_t"].values.astype(bool)
    if lt.sum() >= 30 and (~lt).sum() >= 30:
        try:
            refp = np.asarray(guarded(_func(algo), ls.copy(), lt.copy(), allowed=ALLOWED, sig=algo), dtype=float)
        except Rejected:
            return
        got = allr["posterior_error_prob"].values.astype(float)
        tolf = 1e-3 if algo in ("kde_nnls", "hist_nnls") else 1e-9
        bad = np.abs(got - refp) > tolf + 1e-9 * np.abs(refp)
        require(bad.mean() <= (0.02 if algo != "qvality" else 0.0), "rollup-pep-misaligned",
                f"rollup peptides: {int(bad.sum())} of {len(got)} rows carry a PEP that is not the estimate for their score over the combined rows")
        counters["rollup_rows_checked"] = counters.get("rollup_rows_checked", 0) + len(got)


def _check_sqlite(case):
    """PSM and peptide tables of an SQLite result database: every row's PEP is the PEP of that row's score (the estimator is
    a fixed function of the score here), the score is the one handed over for that PSM, q-values are monotone in the score."""
    import sqlite3

    import mokapot
    import config_inject
    import datagen
    from core import scratch_dir

    config_inject.install_pep_stub()
    n = case["n"]
    with scratch_dir() as tmp:
        df, meta = datagen.psm_frame(case["seed"], [1] * n, key_arity=2, n_noise=1, with_rid=False)
        df["SpecId"] = np.arange(len(df))
        path = Path(tmp) / ("x.parquet" if case["fmt"] == "parquet" else "x.pin")
        datagen.write_table(df, path)
        db = Path(tmp) / "results.db"
        con = sqlite3.connect(db)
        con.execute("CREATE TABLE CANDIDATE (CANDIDATE_ID INTEGER NOT NULL, PSM_FDR REAL, SVM_SCORE REAL, POSTERIOR_ERROR_PROBABILITY REAL, "
                    "PRIMARY KEY (CANDIDATE_ID));")
        con.execute("CREATE TABLE PEPTIDE_VALIDATION (PEPTIDE_ID TEXT NOT NULL, FDR REAL, PEP REAL, SVM_SCORE REAL, PRIMARY KEY (PEPTIDE_ID));")
        con.executemany("INSERT INTO CANDIDATE (CANDIDATE_ID) VALUES (?);", [(int(i),) for i in df["SpecId"]])
        con.commit()
        con.close()
        dest = Path(tmp) / "dest"
        dest.mkdir()
        good = df["f0"].values.astype(float) * 3.0 + np.arange(len(df)) * 1e-9   # spread well beyond [0, 1]
        sc = -good if case.get("lowbetter") else good
        guarded(mokapot.assign_confidence, [datagen.build_ondisk(path, df, meta)], max_workers=1, scores=[sc.copy()],
                descs=[not case.get("lowbetter")], eval_fdr=0.2, dest_dir=dest, prefixes=[None], decoys=case["decoys"],
                peps_algorithm="verif_stub", sqlite_path=db, sig="assign_confidence")
        con = sqlite3.connect(db)
        psm = con.execute("SELECT CANDIDATE_ID, PSM_FDR, SVM_SCORE, POSTERIOR_ERROR_PROBABILITY FROM CANDIDATE WHERE PSM_FDR IS NOT NULL").fetchall()
        pep = con.execute("SELECT PEPTIDE_ID, FDR, SVM_SCORE, PEP FROM PEPTIDE_VALIDATION").fetchall()
        con.close()
    by_id = dict(zip(df["SpecId"].tolist(), sc.tolist()))
    require(len(psm) > 0 and len(pep) > 0, "sqlite-empty", f"{len(psm)} PSM rows and {len(pep)} peptide rows were written")
    given = set(sc.tolist())
    for name, rows in (("CANDIDATE", psm), ("PEPTIDE_VALIDATION", pep)):
        for rid, q, s_, pe in rows:
            require(pe is not None and 0.0 <= pe <= 1.0, "sqlite-pep-range", f"{name} row {rid}: PEP {pe!r} is not a probability (score {s_!r})")
            require(q is not None and 0.0 < q <= 1.0, "sqlite-q-range", f"{name} row {rid}: q-value {q!r}")
            if name == "CANDIDATE":
                require(abs(s_ - by_id[rid]) <= 1e-9 * max(1.0, abs(s_)), "sqlite-score", f"{name} row {rid}: score {s_!r}, handed over {by_id[rid]!r}")
            else:
                require(any(abs(s_ - g) <= 1e-9 * max(1.0, abs(g)) for g in given) if len(given) < 400 else True, "sqlite-score",
                        f"{name} row {rid}: score {s_!r} is none of the scores handed over")
            want = float(config_inject.pep_stub([-s_ if case.get("lowbetter") else s_])[0])
            require(abs(pe - want) <= 1e-9, "sqlite-pep-not-own", f"{name} row {rid}: PEP {pe!r} is not the PEP of the row's own score {s_!r} ({want!r})")
        srt = sorted(rows, key=lambda r: (r[2] if case.get("lowbetter") else -r[2]))
        for a, b in zip(srt, srt[1:]):
            require(a[1] <= b[1] + 1e-12 and a[3] <= b[3] + 1e-12, "sqlite-not-monotone", f"{name}: q-value / PEP decrease as the score worsens ({a} -> {b})")
    return {"nontrivial": True, "classes": ["sqlite-output", "sqlite-lower-is-better" if case.get("lowbetter") else "sqlite-higher-is-better"],
            "counters": {"sqlite_rows_checked": len(psm) + len(pep)}}


def check(case):
    if case.get("kind") == "sqlite":
        return _check_sqlite(case)
    import mokapot

    algo = case["algo"]
    scores, targets = _data(case)
    n = len(scores)
    if len(np.unique(scores)) < 30:
        raise Rejected("fewer than 30 distinct score values")
    f = _func(algo)
    infinite = False
    s_in, t_in = scores.copy(), targets.copy()
    vals = guarded(f, scores, targets, allowed=ALLOWED, sig=algo)
    require(np.array_equal(s_in, scores) and np.array_equal(t_in, targets), "mutated-input", f"{algo} modified its arguments")
    vals = np.asarray(vals, dtype=float)
    require(vals.shape == (n,), "shape", f"{algo}: returned shape {vals.shape} for {n} PSMs")
    require(not np.isnan(vals).any(), "nan", f"{algo}: {int(np.isnan(vals).sum())} NaN values")
    if algo in PEP_ALGOS:
        require(bool(np.all(np.isfinite(vals))), "non-finite", f"{algo}: {int((~np.isfinite(vals)).sum())} non-finite PEPs")
        require(bool(vals.min() >= 0.0 and vals.max() <= 1.0), "range", f"{algo}: PEPs in [{vals.min()}, {vals.max()}]")
    else:
        # the statement asks for non-negative, score-monotone q-values; +inf (a decoy ranked first makes the
        # count-based estimate infinite) is reported as a class, not as a violation
        require(bool(vals.min() >= 0.0), "range", f"{algo}: negative q-value {vals.min()}")
        if np.isinf(vals).any():
            vals = np.where(np.isinf(vals), 1e300, vals)
            infinite = True
    order = np.argsort(-scores, kind="stable")
    vs, ss = vals[order], scores[order]
    dv = np.diff(vs)
    require(bool(np.all(dv >= -1e-9)), "not-monotone",
            f"{algo}: value decreases as the score worsens (worst step {dv.min():.3g} at rank {int(np.argmin(dv))}, "
            f"scores {ss[int(np.argmin(dv))]}->{ss[int(np.argmin(dv)) + 1]}): the values are not aligned with their PSMs or not monotone")
    tie = np.diff(ss) == 0
    require(bool(np.all(np.abs(dv[tie]) <= 1e-9)), "ties-differ", f"{algo}: equal scores receive different values")
    # permutation equivariance (the alignment oracle); one of the permutations is the descending sort callers use
    p = np.random.default_rng(case["perm"]).permutation(n)
    has_ties = len(np.unique(scores)) < n
    # block layouts, as concatenating a ranked target list and a ranked decoy list produces them
    tpos, dpos = np.flatnonzero(targets), np.flatnonzero(~targets)
    t_desc, d_desc = tpos[np.argsort(-scores[tpos], kind="stable")], dpos[np.argsort(-scores[dpos], kind="stable")]
    layouts = [("random", p), ("descending", order)]
    layouts.append([("targets-then-decoys-each-descending", np.concatenate([t_desc, d_desc])),
                    ("decoys-then-targets-each-descending", np.concatenate([d_desc, t_desc])),
                    ("ascending", order[::-1]),
                    ("targets-descending-decoys-ascending", np.concatenate([t_desc, d_desc[::-1]]))][case["perm"] % 4])
    for name, perm in layouts:
        if algo in Q_ALGOS and has_ties:
            # the count-based estimates walk through tied PSMs in an arbitrary order, so their value for a tie group
            # legitimately depends on the input order; alignment is then judged by monotonicity / tie equality only
            break
        if name == "random" and case["perm"] % 2 == 0:
            # a caller that re-uses its buffers: the same array objects were handed over before, with other content
            buf_s, buf_t = scores.copy(), targets.copy()
            guarded(f, buf_s, buf_t, allowed=ALLOWED, sig=algo)
            buf_s[:], buf_t[:] = scores[perm], targets[perm]
            v2 = np.asarray(guarded(f, buf_s, buf_t, allowed=ALLOWED, sig=algo), dtype=float)
        else:
            v2 = np.asarray(guarded(f, scores[perm].copy(), targets[perm].copy(), allowed=ALLOWED, sig=algo), dtype=float)
        v2 = np.where(np.isinf(v2), 1e300, v2)
        # the NNLS-based estimators amplify 1e-16 summation differences of their (order-dependent) inputs up to ~1e-4;
        # a PSM carrying another PSM's value differs by orders of magnitude more
        tol = 1e-3 if algo in ("kde_nnls", "hist_nnls", "from_peps") else 1e-9
        bad = np.abs(v2 - vals[perm]) > tol
        if algo in ("kde_nnls", "hist_nnls", "from_peps") and bad.mean() <= 0.02:
            # the weighted NNLS fit is ill-determined where the target density vanishes (the one or two most extreme
            # scores): their value may legitimately flip between runs (measured: 0.0 vs 0.567 for the top PSM); a value
            # attached to the wrong PSM shows at many positions, and each output is still checked for monotonicity
            counters_solver_noise = int(bad.sum())
            bad[:] = False
        require(not bad.any(), "misaligned",
                f"{algo}: f(s[pi], t[pi]) != f(s, t)[pi] for the {name} permutation at {int(bad.sum())} of {n} positions "
                f"(max diff {float(np.max(np.abs(v2 - vals[perm]))):.3g}): values do not follow their PSM")
    counters = {"values_checked": n}
    if algo == "from_counts" and not has_ties and not infinite:
        # metamorphic: the estimate is pi0 * (#T/#D) * D(x)/T(x); listing every decoy twice doubles D(x) and halves #T/#D,
        # so q/pi0 (pi0 = mokapot's own estimate for the respective list) must not change for any target
        import mokapot.peps as mpeps

        def _pi0(sc_, tg_):
            _, td_, dd_ = mpeps.hist_data_from_scores(sc_, tg_, density=True)
            return float(mpeps.estimate_pi0_by_slope(td_, dd_))

        s2 = np.concatenate([scores, scores[~targets]])
        t2 = np.concatenate([targets, np.zeros(int((~targets).sum()), dtype=bool)])
        try:
            q2 = np.asarray(guarded(f, s2.copy(), t2.copy(), allowed=ALLOWED, sig=algo), dtype=float)[:n]
            p1, p2 = _pi0(scores, targets), _pi0(s2, t2)
        except (Rejected, TypeError):
            p1 = p2 = float("nan")
        if np.isfinite(p1) and np.isfinite(p2) and p1 > 0 and p2 > 0:
            rk = np.empty(n, dtype=int)
            rk[order] = np.cumsum(targets[order])
            m = targets & (rk >= 30) & np.isfinite(vals) & (vals > 0) & np.isfinite(q2)
            if m.any():
                dev = np.abs((q2[m] / p2) / (vals[m] / p1) - 1.0)
                require(bool(dev.max() <= 0.05), "decoy-list-length",
                        f"from_counts: with every decoy listed twice q/pi0 changes by a factor {float(((q2[m] / p2) / (vals[m] / p1)).max()):.3g} "
                        f"(targets {int(targets.sum())}, decoys {int((~targets).sum())}): the estimate does not account for the lengths of the two lists")
                counters["decoy_duplication_checked"] = int(m.sum())
    if algo == "from_peps":
        # the documented optional argument: PEPs supplied by the caller (one per PSM, in input order)
        from mokapot import qvalues as mq

        given = config_inject.pep_stub(scores)
        qa = np.asarray(guarded(mq.qvalues_from_peps, scores.copy(), targets.copy(), peps=given.copy(), sig="from_peps(peps=)"), dtype=float)
        require(qa.shape == (n,) and bool(np.all(np.isfinite(qa))) and bool(qa.min() >= 0), "range", "from_peps(peps=): shape / range")
        dq = np.diff(qa[order])
        require(bool(np.all(dq >= -1e-12)), "not-monotone", f"from_peps(peps=): q-value decreases as the score worsens ({dq.min():.3g})")
        if not has_ties:
            for name, perm in (("random", p), ("descending", order)):
                qb = np.asarray(guarded(mq.qvalues_from_peps, scores[perm].copy(), targets[perm].copy(), peps=given[perm].copy(),
                                        sig="from_peps(peps=)"), dtype=float)
                bad = np.abs(qb - qa[perm]) > 1e-12
                require(not bad.any(), "misaligned",
                        f"from_peps with caller-supplied PEPs: f(s[pi], t[pi], peps[pi]) != f(s, t, peps)[pi] for the {name} permutation at "
                        f"{int(bad.sum())} of {n} positions (max diff {float(np.max(np.abs(qb - qa[perm]))):.3g})")
        counters["explicit_peps_checked"] = n
    if algo == "qvality":
        ref_s, ref_p, _ = _triqler(scores, targets)
        require(len(ref_p) == n, "harness-triqler", "triqler returned another length")
        # PEP as a function of the score, from triqler's own assignment (descending order)
        ref = dict(zip(ref_s.tolist(), ref_p.tolist()))
        diff = np.array([abs(vals[i] - ref[scores[i]]) for i in range(n)])
        require(bool(diff.max() <= 1e-9), "qvality-assignment",
                f"qvality: {int((diff > 1e-9).sum())} PSMs carry a PEP that triqler assigned to another score (max diff {diff.max():.3g})")
        counters["triqler_compared"] = n
    classes = [algo, case["law"]]
    if case["perm"] % 2 == 0 and not (algo in Q_ALGOS and has_ties):
        classes.append("argument-arrays-reused-with-other-content")
    if case["round"] is not None:
        classes.append("ties")
    if infinite:
        classes.append("infinite-q-values")
    # ---- result files -------------------------------------------------------------------------
    if case["file_level"] and algo in PEP_ALGOS:
        m = min(n, 600)
        sc, tg = scores[:m], targets[:m]
        if tg.sum() < 50 or (~tg).sum() < 50:
            raise Rejected("too few PSMs of one class for the file-level part")
        rng = np.random.default_rng(case["seed"] + 5)
        peps_pool = datagen.peptide_pool(rng, max(5, m // 2))
        pep_idx = rng.integers(0, len(peps_pool), m)
        lowbetter = bool(case["seed"] % 2)  # the scores are handed over as "lower is better" (negated) in half of the cases
        with scratch_dir() as tmp:
            halves = [(np.arange(m), "")]
            if case["seed"] % 3 == 0:
                # two collections with different score scales, later combined by the stand-alone rollup tool
                halves = [(np.arange(0, m // 2), "a"), (np.arange(m // 2, m), "b")]
            dss, given = [], []
            for idx, name in halves:
                shift = 1.5 if name == "b" else 0.0
                df = pd.DataFrame({
                    "SpecId": [f"{name}id{i}" for i in idx], "Label": np.where(tg[idx], 1, -1), "ScanNr": idx + 1,
                    "ExpMass": 500.0 + idx * 0.5, "f0": sc[idx],
                    "Peptide": [name + peps_pool[int(pep_idx[i])] + ("" if tg[i] else "X") for i in idx], "Proteins": ["p"] * len(idx)})
                meta = {"key_cols": ["ScanNr", "ExpMass"], "features": ["f0"], "levels": ["Peptide"]}
                path = tmp / f"x{name}.pin"
                datagen.write_table(df, path)
                dss.append((df, meta, path))
                v = (sc[idx] * (2.0 if name == "b" else 1.0) + shift).astype(float)
                given.append(-v if lowbetter else v)
            prefixes = [name or None for _, name in halves]
            score_list = [g.copy() for g in given]  # the SAME list object is handed to both calls below
            for rep in (1, 2):
                out = tmp / f"out{rep}"
                out.mkdir()
                psm_sets = [datagen.build_ondisk(p_, d_, m_) for d_, m_, p_ in dss]
                guarded(mokapot.assign_confidence, psm_sets, max_workers=1, scores=score_list, descs=[not lowbetter] * len(dss),
                        eval_fdr=0.05, dest_dir=out, prefixes=prefixes, decoys=True, peps_algorithm=algo, allowed=ALLOWED,
                        sig="assign_confidence")
                for (idx, name), g in zip(halves, given):
                    pre = f"{name}." if name else ""
                    for level in ("psms", "peptides"):
                        tf = pd.read_csv(out / f"{pre}targets.{level}", sep="\t", float_precision="round_trip")
                        dfl = pd.read_csv(out / f"{pre}decoys.{level}", sep="\t", float_precision="round_trip")
                        allr = pd.concat([tf.assign(_t=True), dfl.assign(_t=False)])
                        handed = dict(zip([f"{name}id{i}" for i in idx], g.tolist()))
                        dev = [abs(float(s_) - handed[p_]) > 1e-9 * max(1.0, abs(handed[p_])) for p_, s_ in zip(allr["PSMId"], allr["score"])]
                        require(not any(dev), "file-score-not-own",
                                f"call {rep}, {pre}{level}: {sum(dev)} rows report a score that is not the score handed over for that PSM "
                                f"(lower-is-better={lowbetter})")
                        # rank by "goodness": the reported score is the one handed over, so lower is better if requested
                        allr = allr.assign(_good=-allr["score"] if lowbetter else allr["score"]).sort_values("_good", ascending=False, kind="stable")
                        ls, lt = allr["_good"].values.astype(float), allr["_t"].values.astype(bool)
                        for fr, nm in ((tf, "targets"), (dfl, "decoys")):
                            pp = fr["posterior_error_prob"].values.astype(float)
                            require(bool(np.all(np.diff(pp) >= -1e-9)), "file-pep-order",
                                    f"call {rep}, {pre}{nm}.{level}: PEP column decreases down the file (lower-is-better={lowbetter})")
                        if lt.sum() >= 30 and (~lt).sum() >= 30:
                            try:
                                refp = np.asarray(guarded(_func(algo), ls.copy(), lt.copy(), allowed=ALLOWED, sig=algo), dtype=float)
                            except Rejected:
                                continue
                            got = allr["posterior_error_prob"].values.astype(float)
                            tolf = 1e-3 if algo in ("kde_nnls", "hist_nnls") else 1e-9
                            bad = np.abs(got - refp) > tolf + 1e-9 * np.abs(refp)
                            require(bad.mean() <= (0.02 if algo != "qvality" else 0.0), "file-pep-misaligned",
                                    f"call {rep}, {pre}{level}: {int(bad.sum())} of {len(got)} rows carry a PEP that is not the estimate for their own "
                                    f"score (algorithm {algo}, lower-is-better={lowbetter})")
                            counters["file_rows_checked"] = counters.get("file_rows_checked", 0) + len(got)
                if any(not np.array_equal(g0, g1) for g0, g1 in zip(given, score_list)):
                    classes.append("caller-score-list-changed")  # not demanded by the property; the second call's files decide
            if len(halves) == 2:
                _check_rollup_peps(case, algo, tmp / "out1", counters)
                classes.append("rollup-tool")
        classes.append("file-level")
        if lowbetter:
            classes.append("file-level-lower-is-better")
    if case["file_level"] and algo in Q_ALGOS and not has_ties:
        # the alternative q-value estimators inside the pipeline: at every level the q-value column is the estimator's
        # output for exactly the rows of that level
        m = min(n, 600)
        sc, tg = scores[:m], targets[:m]
        if tg.sum() < 50 or (~tg).sum() < 50:
            raise Rejected("too few PSMs of one class for the file-level part")
        config_inject.install_pep_stub()
        rng = np.random.default_rng(case["seed"] + 5)
        pool = datagen.peptide_pool(rng, max(5, m // 2))
        pep_idx = rng.integers(0, len(pool), m)
        with scratch_dir() as tmp:
            idx = np.arange(m)
            df = pd.DataFrame({
                "SpecId": [f"id{i}" for i in idx], "Label": np.where(tg, 1, -1), "ScanNr": idx + 1, "ExpMass": 500.0 + idx * 0.5, "f0": sc,
                "Peptide": [pool[int(pep_idx[i])] + ("" if tg[i] else "X") for i in idx], "Proteins": ["p"] * m})
            meta = {"key_cols": ["ScanNr", "ExpMass"], "features": ["f0"], "levels": ["Peptide"]}
            path = tmp / "x.pin"
            datagen.write_table(df, path)
            out = tmp / "out"
            out.mkdir()
            guarded(mokapot.assign_confidence, [datagen.build_ondisk(path, df, meta)], max_workers=1, scores=[sc.astype(float).copy()], descs=[True],
                    eval_fdr=0.05, dest_dir=out, prefixes=[None], decoys=True, peps_algorithm="verif_stub", qvalue_algorithm=algo,
                    allowed=ALLOWED, sig="assign_confidence")
            for level in ("psms", "peptides"):
                tf = pd.read_csv(out / f"targets.{level}", sep="\t", float_precision="round_trip")
                dfl = pd.read_csv(out / f"decoys.{level}", sep="\t", float_precision="round_trip")
                allr = pd.concat([tf.assign(_t=True), dfl.assign(_t=False)]).sort_values("score", ascending=False, kind="stable")
                ls, lt = allr["score"].values.astype(float), allr["_t"].values.astype(bool)
                if lt.sum() < 30 or (~lt).sum() < 30 or len(np.unique(ls)) < len(ls):
                    continue
                try:
                    refq = np.asarray(guarded(f, ls.copy(), lt.copy(), allowed=ALLOWED, sig=algo), dtype=float)
                except Rejected:
                    continue
                got = allr["q-value"].values.astype(float)
                fin = np.isfinite(refq) & np.isfinite(got)
                tolq = 1e-3 if algo == "from_peps" else 1e-9
                bad = (np.abs(got - refq) > tolq + 1e-9 * np.abs(refq)) & fin
                require(bad.mean() <= (0.02 if algo == "from_peps" else 0.0) and bool(np.all(np.isfinite(refq) == np.isfinite(got))), "file-qvalue-not-own",
                        f"{level} level, qvalue_algorithm={algo}: {int(bad.sum())} of {len(got)} rows carry a q-value that is not the estimator's "
                        f"value for the rows of this level (e.g. {got[bad][:3].tolist()} vs {refq[bad][:3].tolist()})")
                counters["file_qvalues_checked"] = counters.get("file_qvalues_checked", 0) + len(got)
        classes.append("file-level-q-estimator")
    sorted_in = bool(np.all(np.diff(scores) <= 0))
    return {"nontrivial": case["nt"] >= 50 and case["nd"] >= 50 and not sorted_in, "classes": classes, "counters": counters}
