"""C07 - best-feature safety net: never silently worse than the best single feature."""

from __future__ import annotations

from fractions import Fraction

import numpy as np
import pandas as pd
from hypothesis import strategies as st

import brewlib
import config_inject
import datagen
import recorder
from core import Rejected, guarded, require, scratch_dir
from refs import labels_ref, tdc_ref

ID = "C07"
LEVEL = "exploration"
TECHNIQUE = (
    "Hypothesis-generated datasets x estimators (learning, constant, inverting, memorising with useless or weak generalisation, LinearSVC) x label "
    "encodings x feature direction x format; oracle = independent recomputation of the best-feature and returned-score "
    "acceptance counts with the exact TDC reference, fallback identity, and a direction metamorphic relation on "
    "assign_confidence"
)
RULE = (
    "case = 1-2 collections of 300-900 rows with one informative feature (optionally negated => lower-is-better), "
    "noise features, estimator kind, override flag, label encoding pm1/01/bool, tsv/parquet, folds 2-4, FDR in "
    "{0.0731, 0.1279, 0.2113}. Non-trivial: the fallback branch was taken, or the returned direction is "
    "lower-is-better, or the label encoding is not 0/1. In addition 16 (quick) / 96 (thorough) command-line runs in which brew "
    "is replaced by its fall-back outcome (a feature's values with their direction): the result files must follow that direction. "
    "Distinct = distinct canonical JSON."
)
ASSUMPTIONS = [
    "the best feature is counted at the training FDR on the training sets, the returned scores at the evaluation FDR on all "
    "data (as the statement says); cases in which an exact q-value lies within float32 rounding of a threshold are discarded",
    "training sets are observed with a recording scaler passed through the public Model API (row id = last feature)",
    "result-file numeric columns compared with rtol 1e-9 in the direction metamorphic relation",
]
FDRS = (0.0731, 0.1279, 0.2113)
KINDS = ["good", "good", "const", "const", "invert", "invert", "memoweak", "memoweak", "memoweak", "svc", "svc", "memobad"]


def budget(tier):
    if tier == "quick":
        return {"examples": 480, "shards": 16, "time_s": 75}
    return {"examples": 16000, "shards": 16, "time_s": 1500}


@st.composite
def _case(draw, tier):
    ncoll = draw(st.sampled_from([1, 1, 2]))
    folds = draw(st.integers(2, 4))
    files = []
    for _ in range(ncoll):
        ns = draw(st.integers(300, 520 if tier == "quick" else 900))
        files.append({"mults": datagen.draw_mults(draw, st, (ns, ns), 2)})
    if ncoll == 2 and draw(st.booleans()):
        # a small second run in which nothing is confidently identified (no feature separates targets from decoys there)
        ns = draw(st.integers(60, 120))
        files[1] = {"mults": datagen.draw_mults(draw, st, (ns, ns), 2), "sep": 0.0}
    return {
        "seed": draw(st.integers(0, 2**31 - 1)),
        "files": files,
        "key": draw(st.integers(1, 3)),
        "folds": folds,
        "workers": draw(st.sampled_from([1, 1, 3])),
        "rng": draw(st.integers(0, 10**6)),
        "kind": draw(st.sampled_from(KINDS)),
        "override": draw(st.sampled_from([False, False, False, True])),
        "sign": draw(st.sampled_from([1.0, -1.0])),
        "label_enc": draw(st.sampled_from(["pm1", "01", "bool"])),
        "fmt": draw(st.sampled_from(["tsv", "tsv", "parquet"])),
        "n_noise": draw(st.integers(1, 3)),
        "fdr": draw(st.sampled_from((0.1279, 0.2113, 0.2113, 0.31))),
        "sep": draw(st.sampled_from([3.0, 4.0])),
        "train_fdr": draw(st.sampled_from([None, None, 0.31, 0.2113, 0.1279])),  # None: same as the evaluation FDR
        "twin": draw(st.booleans()),
        # the user names the feature that gives the initial direction (Model(direction=...)) instead of leaving the choice to mokapot
        "explicit_direction": draw(st.sampled_from([False, False, False, True])),
        "raw_labels": draw(st.booleans()),
        # one noise feature becomes a two-valued indicator that marks nearly all correct targets: the best single feature
        "flag": draw(st.sampled_from([False, False, True])),
        # file layout: targets listed ahead of the decoys (matters when scores tie, e.g. all-zero scores of an untrained model)
        "targets_first": draw(st.sampled_from([False, True])),
        "cap_kind": "none", "cap_frac": 50, "shared_prefix": False, "row_group": None,
        "predict_chunk": draw(st.sampled_from([None, None, 64])), "readall_chunk": None,
    }


def strategy(tier):
    return _case(tier)


def _accepted(scores, targets, thr, desc):
    q = tdc_ref([float(x) for x in scores], [bool(t) for t in targets], desc)
    _, amb = labels_ref(q, targets, thr)
    n = sum(1 for qi, t in zip(q, targets) if t and qi <= Fraction(thr))
    return n, bool(amb)


def _make_model(case):
    import mokapot
    from sklearn.svm import LinearSVC

    k = case["kind"]
    thr = case.get("train_fdr") or case["fdr"]
    if k == "svc":
        return mokapot.Model(LinearSVC(dual=False, random_state=0), scaler=recorder.RecScaler(identity=False),
                             train_fdr=thr, max_iter=3, override=case["override"])
    est = {
        "good": recorder.Lin(log="c07", w=case["sign"], eps=0.0),
        "const": recorder.Const(log="c07"),
        "invert": recorder.Invert(log="c07", w=case["sign"], eps=0.0),
        "memobad": recorder.Memo(log="c07", feat=1),
        "memoweak": recorder.MemoWeak(log="c07", w=case["sign"]),
    }[k]
    kw = {"direction": "f0"} if (case.get("explicit_direction") and not case.get("twin") and not case.get("flag")) else {}
    return mokapot.Model(est, scaler=recorder.RecScaler(identity=True), train_fdr=thr, max_iter=2, override=case["override"], **kw)


def _check_cli_direction(case):
    """The command line hands brew's direction on to the confidence step: with brew replaced by its own fall-back outcome
    (the best feature's values, lower-is-better) the result files must rank low values first."""
    import contextlib
    import io

    import mokapot.peps as mpeps
    from mokapot import mokapot as cli

    from core import Violation
    from refs import accepted_ref

    thr = 0.0731
    n = case["n"]
    df, meta = datagen.psm_frame(case["seed"], [1] * n, key_arity=2, n_noise=1, sep=4.0, with_rid=False,
                                 informative_sign=-1.0 if case["lowbetter"] else 1.0)
    is_t = [bool(t) for t in meta["is_target"]]
    f0 = [float(v) for v in df["f0"]]
    desc = not case["lowbetter"]
    q = tdc_ref(f0, is_t, desc)
    _, amb = labels_ref(q, is_t, thr)
    if amb:
        raise Rejected("exact q-value within float32 rounding of test_fdr")
    want_acc = len(accepted_ref(f0, is_t, thr, desc))
    config_inject.install_pep_stub()
    saved_pep = mpeps.PEP_ALGORITHM["qvality"]
    real_brew = cli.brew

    def fallback_brew(datasets, model=None, **kw):
        scores = [np.asarray(d.read_data(columns=["f0"])["f0"].values, dtype=float) for d in datasets]
        return datasets, [], scores, [desc] * len(datasets)

    with scratch_dir() as tmp:
        pin = tmp / "exp.pin"
        datagen.write_table(df, pin)
        mpeps.PEP_ALGORITHM["qvality"] = mpeps.PEP_ALGORITHM["verif_stub"]
        cli.brew = fallback_brew
        try:
            with contextlib.redirect_stderr(io.StringIO()), contextlib.redirect_stdout(io.StringIO()):
                guarded(cli.main, [str(pin), "--dest_dir", str(tmp / "out"), "--test_fdr", str(thr), "--keep_decoys", "--verbosity", "0",
                                   "--peps_algorithm", "qvality"], sig="cli")
        finally:
            cli.brew = real_brew
            mpeps.PEP_ALGORITHM["qvality"] = saved_pep
        tp = pd.read_csv(tmp / "out" / "targets.psms", sep="\t", float_precision="round_trip", dtype={"PSMId": str})
    sc = tp["score"].values.astype(float)
    require(len(tp) == sum(is_t), "cli-direction", f"{len(tp)} target PSMs reported for {sum(is_t)} target spectra")
    mono = np.diff(sc) <= 0 if desc else np.diff(sc) >= 0
    require(bool(np.all(mono)), "cli-direction-ignored",
            f"command line, brew returned higher-is-better={desc}: targets.psms is not ordered best score first "
            f"(first scores {sc[:4].tolist()})")
    got_acc = int((tp["q-value"] <= thr).sum())
    require(got_acc == want_acc, "cli-direction-ignored",
            f"command line, brew returned higher-is-better={desc}: {got_acc} PSMs accepted at {thr}, the feature accepts {want_acc} ranking "
            f"{'high' if desc else 'low'} values first")
    return {"nontrivial": case["lowbetter"], "classes": ["cli", "cli-lower-is-better" if case["lowbetter"] else "cli-higher-is-better"],
            "counters": {"cli_runs": 1}}


def extra(tier, seed, shard, nshards, stats):
    from core import Violation

    if shard == 1:
        # one large collection (training splits of > 20 000 PSMs) with an estimator that trains on every fold but generalises
        # worse than the best feature: the safety net must still fire
        big = {"seed": seed * 7 + 3, "files": [{"mults_n": 36000}], "key": 2, "folds": 3, "workers": 3, "rng": seed, "kind": "memoweak",
               "override": False, "sign": 1.0, "label_enc": "pm1", "fmt": "tsv", "n_noise": 2, "fdr": 0.1279, "sep": 3.0, "train_fdr": None,
               "twin": False, "raw_labels": False, "flag": False, "cap_kind": "none", "cap_frac": 50, "shared_prefix": False,
               "row_group": None, "predict_chunk": None, "readall_chunk": None}
        stats.evaluations += 1
        try:
            obs = check(big)
            obs["classes"] = list(obs.get("classes", [])) + ["training-split>20000-rows"]
            stats.observe(big, obs)
        except Rejected as rej:
            stats.rejected += 1
            stats.rejected_reasons[str(rej)[:80]] += 1
        except Violation as v:
            stats.failure = {"case": big, "signature": v.signature, "message": v.message}
            return
    reps = 1 if tier == "quick" else 6
    for r in range(reps):
        case = {"kind": "cli", "seed": seed * 100003 + shard * 101 + r, "n": 300 + 40 * ((shard + r) % 5), "lowbetter": (shard + r) % 3 != 0}
        stats.evaluations += 1
        try:
            obs = _check_cli_direction(case)
        except Rejected as rej:
            stats.rejected += 1
            stats.rejected_reasons[str(rej)[:80]] += 1
            continue
        except Violation as v:
            stats.failure = {"case": case, "signature": v.signature, "message": v.message}
            return
        stats.observe(case, obs)


def check(case):
    if case.get("kind") == "cli":
        return _check_cli_direction(case)
    if any("mults_n" in f for f in case["files"]):
        case = {**case, "files": [{"mults": [1] * f["mults_n"]} if "mults_n" in f else f for f in case["files"]]}
    import mokapot

    config_inject.install_pep_stub()
    thr = case["fdr"]
    with scratch_dir() as tmp:
        dfs, metas, psms = brewlib.build_datasets(case, tmp)
        model = _make_model(case)
        try:
            res = guarded(mokapot.brew, psms, model, test_fdr=thr, folds=case["folds"], max_workers=case["workers"],
                          rng=case["rng"], allowed=brewlib.ALLOWED_BREW, sig="brew")
        finally:
            recorder.drop_log("c07")
        _, models, scores, descs = res
        feats = metas[0]["features"]
        tg_all = [m["is_target"] for m in metas]
        # ---- F: best single feature on any fold's training set (counted at the training FDR) -----------------
        train_thr = case.get("train_fdr") or thr
        F, F_args, ambiguous = 0, None, False
        per_fold_best = []
        for j, m in enumerate(models):
            rids = getattr(m.scaler, "train_rids_", None)
            require(rids is not None, "harness-no-train-rows", "recording scaler was not fitted")
            fi = rids // 1_000_000
            pos = rids % 1_000_000
            tg = np.array([tg_all[a][b] for a, b in zip(fi, pos)])
            best_j = {}
            for f in feats:
                col = np.array([dfs[a][f].values[b] for a, b in zip(fi, pos)], dtype=float)
                for d in (True, False):
                    n_acc, amb = _accepted(col, tg, train_thr, d)
                    ambiguous |= amb
                    best_j[(f, d)] = n_acc
                    if n_acc > F:
                        F, F_args = n_acc, (j, f, d)
            per_fold_best.append(best_j)
        if getattr(model, "direction", None) is not None:
            classes_extra = ["direction-named-by-the-user"]
            if F_args is not None and F_args[1] != model.direction:
                # another feature happens to beat the named one: "the best single feature" is not the one training started from
                return {"nontrivial": False, "classes": ["direction-named-by-the-user", "named-feature-is-not-the-best"]}
        else:
            classes_extra = []
        require(len(scores) == len(dfs) and len(descs) == len(dfs), "shape", "scores/descs per collection")
        S = [np.asarray(s, dtype=float).ravel() for s in scores]
        for s, df in zip(S, dfs):
            require(len(s) == len(df), "score-length", f"{len(s)} scores for {len(df)} PSMs")
        # ---- is the returned score a feature column? -------------------------------
        as_feature = None
        for f in feats:
            if all(np.allclose(s, df[f].values.astype(float), rtol=1e-12, atol=0) for s, df in zip(S, dfs)):
                as_feature = f
                break
        if as_feature is None and len(S) > 1:
            # the collections are modelled jointly and fall back jointly: "the returned scores are that feature's values"
            part = [f for f in feats if any(np.allclose(s, df[f].values.astype(float), rtol=1e-12, atol=0) for s, df in zip(S, dfs))]
            require(not part, "fallback-partial",
                    f"some but not all of the {len(S)} jointly modelled collections were handed the values of feature {part[:1]}; "
                    f"the others keep scores of a model that was judged worse (descs {list(descs)})")
        P = 0
        for s, d, tg in zip(S, descs, tg_all):
            n_acc, amb = _accepted(s, tg, thr, bool(d))
            ambiguous |= amb
            P += n_acc
        if ambiguous:
            raise Rejected("exact q-value within float32 rounding of the threshold")
        trained = all(m.is_trained for m in models)
        classes = [case["kind"], case["label_enc"], case["fmt"]] + classes_extra
        if as_feature is None:
            if not case["override"]:
                require(P >= F, "silently-worse",
                        f"returned model scores accept {P} targets at FDR {thr}, the best feature {F_args} accepted {F} during "
                        f"training, and brew did not fall back (trained={trained}, label encoding {case['label_enc']})")
            classes.append("model-scores")
        else:
            classes.append("fallback")
            if trained:
                classes.append("fallback-although-all-folds-trained")
            require(len(set(bool(d) for d in descs)) == 1, "fallback-direction", f"descs {descs}")
            d = bool(descs[0])
            require(any(pf[(as_feature, d)] == F for pf in per_fold_best), "fallback-not-best",
                    f"fell back to feature {as_feature} with higher-is-better={d}, which accepts at most "
                    f"{max(pf[(as_feature, d)] for pf in per_fold_best)} targets in a training set; the best feature {F_args} accepts {F}")
            if not d:
                classes.append("fallback-lower-is-better")
            if trained and case.get("reload", True):
                # history: the fold models are saved, loaded again and handed back for the same collections (--save_models /
                # --load_models): the safety net must come to the same feature and the same direction
                loaded = []
                for j, m in enumerate(models):
                    mp = tmp / f"fold{j}.pkl"
                    guarded(m.save, mp, sig="Model.save")
                    loaded.append(guarded(mokapot.load_model, mp, sig="load_model"))
                _, _, psms2 = brewlib.build_datasets(case, tmp)
                recorder.new_log("c07")
                try:
                    res2 = guarded(mokapot.brew, psms2, loaded, test_fdr=thr, folds=case["folds"], max_workers=case["workers"],
                                   rng=case["rng"], allowed=brewlib.ALLOWED_BREW, sig="brew-reloaded-models")
                finally:
                    recorder.drop_log("c07")
                S2 = [np.asarray(s_, dtype=float).ravel() for s_ in res2[2]]
                same = all(len(a) == len(b) and np.allclose(a, b, rtol=1e-12, atol=0) for a, b in zip(S2, S))
                require(same and [bool(x_) for x_ in res2[3]] == [bool(x_) for x_ in descs], "fallback-lost-after-reload",
                        f"first run fell back to {as_feature} with descs={list(descs)}; the same models saved, re-loaded and handed back give "
                        f"descs={list(res2[3])} and {'the same' if same else 'other'} scores")
                classes.append("fallback-reproduced-with-reloaded-models")
        if trained and case["override"]:
            classes.append("override")
        if case.get("train_fdr") and case["train_fdr"] != thr:
            classes.append("train_fdr!=test_fdr")
        if case["twin"]:
            classes.append("twin-features")
        if case.get("targets_first"):
            classes.append("targets-listed-first")
        if case.get("flag"):
            classes.append("two-valued-indicator-feature")
            if F_args is not None and F_args[1] == "f1":
                classes.append("best-feature-is-two-valued")
        if case["raw_labels"]:
            classes.append("raw-labels-in-memory")
        # ---- confidence honours the returned direction ------------------------------------
        lowbetter = any(not bool(d) for d in descs)
        # metamorphic: (x, desc) vs (-x, not desc) give the same q per PSM and the same row order
        ci = 0
        x, d0 = S[ci], bool(descs[ci])
        outs = []
        for sc, dd, name in ((x, d0, "a"), (-x, not d0, "b")):
            out = tmp / f"conf_{name}"
            out.mkdir()
            ps = datagen.build_ondisk(psms[ci].filename, dfs[ci], metas[ci])
            guarded(mokapot.assign_confidence, [ps], max_workers=1, scores=[sc.copy()], descs=[dd], eval_fdr=thr,
                    dest_dir=out, prefixes=[None], decoys=True, peps_algorithm="verif_stub", sig="assign_confidence")
            outs.append({f.name: pd.read_csv(f, sep="\t", float_precision="round_trip", dtype={"PSMId": str})
                         for f in sorted(out.iterdir())})
        A, B = outs
        require(sorted(A) == sorted(B), "direction-files", f"{sorted(A)} vs {sorted(B)}")
        tie_free = len(np.unique(x)) == len(x)
        for name in A:
            fa, fb = A[name], B[name]
            sa = fa["score"].values.astype(float)
            mono = np.diff(sa) <= 0 if d0 else np.diff(sa) >= 0
            require(bool(np.all(mono)), "direction-order",
                    f"{name}: with higher-is-better={d0} the file is not ordered best score first")
            if not tie_free:
                continue
            require(fa["PSMId"].tolist() == fb["PSMId"].tolist(), "direction-ignored",
                    f"{name}: (x, desc={d0}) and (-x, desc={not d0}) give different rows/order ({len(fa)} vs {len(fb)} rows)")
            require(bool(np.allclose(fa["q-value"].values, fb["q-value"].values, rtol=1e-9, atol=0)), "direction-ignored",
                    f"{name}: q-values differ between (x, desc={d0}) and (-x, desc={not d0})")
            require(bool(np.allclose(fa["score"].values, -fb["score"].values, rtol=1e-9, atol=0)), "direction-score",
                    f"{name}: reported scores are not the scores passed in")
        # the accepted count reported in the files equals the reference count on the de-duplicated PSMs (sanity of direction)
        tp = A["targets.psms"]
        n_file = int((tp["q-value"] <= thr).sum())
        if lowbetter or as_feature is not None:
            require(n_file > 0 or P == 0, "direction-ignored",
                    f"brew's scores accept {P} targets at FDR {thr} but assign_confidence accepts {n_file} PSMs with descs={descs}")
    nontrivial = as_feature is not None or lowbetter or case["label_enc"] != "01"
    return {"nontrivial": nontrivial, "classes": classes, "counters": {"feature_direction_counts": len(feats) * 2 * len(models)}}
