"""C08 - fixed seed gives bit-identical results across runs and interpreter sessions."""

from __future__ import annotations

import hashlib
import itertools
import json
import os
import subprocess
import sys
from pathlib import Path

import numpy as np
from hypothesis import strategies as st

from core import HARNESS, REPO, Violation, require, scratch_dir

ID = "C08"
LEVEL = "exploration"
LEVEL_TEXT = (
    "Bit-identity of digests across in-process repeats, worker counts, fresh interpreters with other hash seeds and every order of the returned models, on every generated history. Covers the seeds / permutations generated on this platform."
)
TECHNIQUE = (
    "Hypothesis-generated run histories: the same analysis (read_pin -> brew -> assign_confidence incl. protein "
    "level) repeated in one process, with other worker counts, in fresh interpreters with different PYTHONHASHSEED, "
    "and re-run with the returned models in every order; oracle = bit-identity of sha256 digests of fold assignment, "
    "model parameters, scores, every result file and the canonicalised FASTA maps"
)
RULE = (
    "history = (dataset seed/size, spectrum key incl. string file names, brew seed, folds 2-4, learner PercolatorModel (explicit, or brew's default with model=None) / "
    "LinearSVC / decision tree, worker counts w1 != w2, hash seeds h1 != h2, all permutations of the returned models "
    "(<= 4 folds), optional FASTA for the protein level). Non-trivial: >= 3 folds (non-identity permutations of which "
    "some are not involutions) and h1 != h2. Distinct = distinct canonical JSON."
)
ASSUMPTIONS = [
    "same machine, same library builds; covers the hash seeds, worker counts and permutations generated",
    "PEP estimation is replaced by the deterministic score-function stub (the real estimators reject small levels)",
    "the '; '-joined shared_peptides strings are compared as sets of group names (the statement speaks of fold "
    "assignments, coefficients, scores and result files)",
]
AA = "ACDEFGHILMNPQSTVWY"


def budget(tier):
    if tier == "quick":
        return {"examples": 32, "shards": 16, "time_s": 100, "hard_s": 900}
    return {"examples": 480, "shards": 16, "time_s": 1500, "hard_s": 5400}


@st.composite
def _case(draw, tier):
    folds = draw(st.sampled_from([2, 3, 3, 4]))
    w1 = draw(st.sampled_from([1, 1, 2]))
    w2 = draw(st.sampled_from([w for w in (1, 2, 3, 4, 8) if w != w1]))
    h1 = draw(st.integers(0, 1000))
    h2 = draw(st.integers(1001, 4000000))
    learner = draw(st.sampled_from(["perc", "perc", "default", "default", "svc", "svc", "tree", "tree", "tree"]))
    ensemble = draw(st.sampled_from([False, False, True]))
    if ensemble:
        # the interesting schedule for an average over fold models: a worker count strictly between 1 and the number of models
        folds, w1, w2 = max(folds, 3), draw(st.sampled_from([1, 3, 4])), 2
    return {
        "seed": draw(st.integers(0, 2**31 - 1)),
        # the default model trains at FDR 0.01 and needs > 100 targets ahead of the first decoy
        "n_spectra": draw(st.integers(1500, 2200)) if learner == "default" else draw(st.integers(260, 420)),
        "key": draw(st.sampled_from([2, 3, 3, 4])),
        "brew_seed": draw(st.integers(0, 2**31 - 1)),
        "folds": folds,
        "learner": learner,
        "w1": w1,
        "w2": w2,
        "h1": h1,
        "h2": h2,
        "proteins": draw(st.booleans()),
        # the protein database may lack decoy entries (decoy groups then mirror the targets)
        "fasta_decoys": draw(st.sampled_from([True, True, False])),
        # training-set cap (a random subset of the other folds, drawn with the run's generator)
        "cap": draw(st.sampled_from([None, None, 0.6])),
        "fmt": draw(st.sampled_from(["tsv", "tsv", "parquet"])),
        # ensemble rescoring: every PSM gets the average of all fold models
        "ensemble": ensemble,
        # joint modelling: a second, shorter collection (the leading half of the table in a file of its own) is brewed together with the first
        "second": draw(st.sampled_from([False, False, True])),
    }


def strategy(tier):
    return _case(tier)


# ---------------------------------------------------------------------------
def _sha(b):
    return hashlib.sha256(b).hexdigest()[:20]


def _build_inputs(case, tmp):
    import pandas as pd

    rng = np.random.default_rng(case["seed"])
    ns = case["n_spectra"]
    npep = 60
    pool, seen = [], set()
    while len(pool) < npep:
        L = int(rng.integers(6, 11))
        p = "".join(AA[int(i)] for i in rng.integers(0, len(AA), L)) + "K"
        if p not in seen and p[:-1][::-1] + "K" not in seen:
            seen.add(p)
            pool.append(p)
    dec = [p[:-1][::-1] + "K" for p in pool]
    rows = []
    for s in range(ns):
        for t in (True, False):
            if rng.random() < 0.1:
                continue
            good = t and rng.random() < 0.5
            j = int(rng.integers(0, npep))
            rows.append({
                "SpecId": f"s{s}_{int(t)}", "Label": 1 if t else -1, "ScanNr": 100 + s,
                "ExpMass": round(600 + 3.0 * s + rng.random(), 4),
                "filename": f"run{s % 3}.mzML", "ret_time": round(float(rng.random() * 3600), 3),
                "f0": round(float(rng.normal(3.0 if good else 0.0, 1.0)), 6),
                "f1": round(float(rng.normal(1.5 if good else 0.0, 1.0)), 6),
                "f2": round(float(rng.normal(0.0, 1.0)), 6),
                "f3gap": (round(float(rng.normal(0.0, 1.0)), 6) if (len(rows) % 53) else float("nan")),
                "f4": round(float(rng.normal(0.5 if good else 0.0, 1.0)), 6),
                "Peptide": ("K." + pool[j] + ".A") if t else dec[j],
                "Proteins": "x",
            })
    df = pd.DataFrame(rows)
    keep = {1: ["ScanNr"], 2: ["ScanNr", "ExpMass"], 3: ["filename", "ScanNr", "ExpMass"], 4: ["filename", "ScanNr", "ret_time", "ExpMass"]}[case["key"]]
    cols = ["SpecId", "Label"] + keep + ["f0", "f1", "f2", "f3gap", "f4", "Peptide", "Proteins"]  # f3gap has missing values: dropped by the parser
    df = df[cols]
    ext = ".parquet" if case["fmt"] == "parquet" else ".pin"
    path = Path(tmp) / f"input{ext}"
    if ext == ".parquet":
        df.to_parquet(path, index=False)
    else:
        df.to_csv(path, sep="\t", index=False)
    if case.get("second"):
        path2 = Path(tmp) / f"input_second{ext}"
        half = df.iloc[: max(len(df) // 2, 1)]
        if ext == ".parquet":
            half.to_parquet(path2, index=False)
        else:
            half.to_csv(path2, sep="\t", index=False)
        case["_path2"] = str(path2)
    fasta = Path(tmp) / "db.fasta"
    lines = []
    nprot = 25
    for k in range(nprot):
        idx = [int(i) for i in rng.integers(0, npep, int(rng.integers(3, 6)))]
        lines.append((f"sp|P{k:03d}|X", "".join(pool[i] for i in idx), "".join(dec[i] for i in idx)))
    # every peptide occurs somewhere (so that peptides can be mapped)
    lines.append(("sp|PALL|X", "".join(pool), "".join(dec)))
    with open(fasta, "w") as f:
        for n, t, d in lines:
            f.write(f">{n}\n{t}\n")
        if case.get("fasta_decoys", True):
            for n, t, d in lines:
                f.write(f">decoy_{n}\n{d}\n")
    return path, fasta


def _model(case):
    import mokapot
    from sklearn.svm import LinearSVC
    from sklearn.tree import DecisionTreeClassifier

    if case["learner"] == "default":
        return None  # brew(model=None, rng=seed): the default model must be seeded by brew itself
    if case["learner"] == "perc":
        return mokapot.PercolatorModel(train_fdr=0.2, max_iter=3, rng=case["brew_seed"])
    if case["learner"] == "svc":
        return mokapot.Model(LinearSVC(dual=False), train_fdr=0.2, max_iter=3)
    return mokapot.Model(DecisionTreeClassifier(max_depth=3, random_state=0), train_fdr=0.2, max_iter=2, override=True)


def _model_digest(models):
    h = hashlib.sha256()
    for m in models:
        est = m.estimator
        h.update(str(m.fold).encode())
        if hasattr(est, "coef_"):
            h.update(np.asarray(est.coef_, dtype=float).tobytes())
            h.update(np.asarray(est.intercept_, dtype=float).tobytes())
        elif hasattr(est, "tree_"):
            h.update(est.tree_.threshold.tobytes() + est.tree_.feature.tobytes() + est.tree_.value.tobytes())
        sc = m.scaler
        if hasattr(sc, "mean_"):
            h.update(np.asarray(sc.mean_).tobytes() + np.asarray(sc.scale_).tobytes())
    return h.hexdigest()[:20]


def _run_once(case, tmp, workers, tag, models_in=None):
    import mokapot
    import config_inject

    config_inject.install_pep_stub()
    path, fasta = case["_paths"]
    out = Path(tmp) / f"out_{tag}"
    out.mkdir()
    res = {}
    psms = mokapot.read_pin([path] + ([Path(case["_path2"])] if case.get("_path2") else []), max_workers=workers)
    twin = mokapot.read_pin([path], max_workers=1)[0]
    folds_idx = twin._split(case["folds"], np.random.default_rng(case["brew_seed"]))
    res["folds"] = _sha(json.dumps([sorted(int(i) for i in f) for f in folds_idx]).encode())
    model = models_in if models_in is not None else _model(case)
    cap = None
    if case.get("cap"):
        nrows = len(twin.spectra_dataframe) if hasattr(twin, "spectra_dataframe") else None
        nrows = nrows or sum(len(f) for f in folds_idx)
        cap = int(case["cap"] * nrows * (case["folds"] - 1) / case["folds"])
    _, models, scores, descs = mokapot.brew(psms, model, test_fdr=0.2, folds=case["folds"], max_workers=workers, rng=case["brew_seed"],
                                            subset_max_train=cap, ensemble=bool(case.get("ensemble")))
    res["models"] = _model_digest(models)
    res["scores"] = _sha(b"".join(np.asarray(s, dtype=float).ravel().tobytes() for s in scores) + str(list(descs)).encode())
    if len(psms) > 1:
        # (models and scores of the joint analysis are digested above; the confidence steps below follow the first collection)
        psms, scores, descs = psms[:1], scores[:1], descs[:1]
    prot = None
    if case["proteins"]:
        prot = mokapot.read_fasta(str(fasta), min_length=6, missed_cleavages=0)
        canon = {
            "pm": sorted(prot.peptide_map.items()),
            "sp": sorted((k, sorted(v.split("; "))) for k, v in prot.shared_peptides.items()),
            "prm": sorted(prot.protein_map.items()),
        }
        res["fasta"] = _sha(json.dumps(canon).encode())
    mokapot.assign_confidence(psms, max_workers=workers, scores=[np.asarray(s, dtype=float).ravel() for s in scores], descs=list(descs),
                              eval_fdr=0.2, dest_dir=out, prefixes=[None], decoys=True, proteins=prot, rng=case["brew_seed"] % 1000,
                              peps_algorithm="verif_stub")
    files = {}
    for f in sorted(out.iterdir()):
        files[f.name] = _sha(f.read_bytes())
    res["files"] = files
    if tag == "a" and prot is not None:
        # the very same call again with the same Proteins object (an in-process repeat / the next file of a batch)
        o3 = Path(tmp) / "same_proteins_again"
        o3.mkdir()
        mokapot.assign_confidence(psms, max_workers=workers, scores=[np.asarray(s, dtype=float).ravel() for s in scores], descs=list(descs),
                                  eval_fdr=0.2, dest_dir=o3, prefixes=[None], decoys=True, proteins=prot, rng=case["brew_seed"] % 1000,
                                  peps_algorithm="verif_stub")
        res["same_proteins_again"] = {f.name: _sha(f.read_bytes()) for f in sorted(o3.iterdir())}
    if tag == "a":
        # a user-supplied lower-is-better score, analysed twice in this process with the very same arrays: same files twice
        import pandas as pd

        tab = pd.read_parquet(path) if str(path).endswith(".parquet") else pd.read_csv(path, sep="\t")
        user_scores = [(-tab["f0"].values).astype(float)]
        twice = []
        for rep in (1, 2):
            o2 = Path(tmp) / f"user_{rep}"
            o2.mkdir()
            ps2 = mokapot.read_pin([path], max_workers=1)
            mokapot.assign_confidence(ps2, max_workers=workers, scores=user_scores, descs=[False], eval_fdr=0.2, dest_dir=o2,
                                      prefixes=[None], decoys=True, rng=1, peps_algorithm="verif_stub")
            twice.append({f.name: _sha(f.read_bytes()) for f in sorted(o2.iterdir())})
        res["user_score_twice"] = twice
    return res, models


def child_main():
    """stdin: case JSON; stdout: digests of run A, its in-process repeat, another worker count, all model orders."""
    import core

    core.bootstrap()
    case = json.loads(sys.stdin.read())
    out = {}
    with scratch_dir() as tmp:
        case["_paths"] = _build_inputs(case, tmp)
        a, models = _run_once(case, tmp, case["w1"], "a")
        out["A"] = a
        if case.get("full"):
            out["repeat"], _ = _run_once(case, tmp, case["w1"], "rep")
            out["workers"], _ = _run_once(case, tmp, case["w2"], "w2")
            perms = list(itertools.permutations(range(len(models))))
            if len(perms) > 24:
                perms = perms[:1] + perms[-23:]
            if case["learner"] == "default":
                perms = perms[-2:]  # large datasets: two non-identity orders
            out["perms"] = {}
            if not all(m.is_trained for m in models):
                perms = []  # brew refuses untrained models by design; nothing to feed back
                out["untrained"] = True
            for k, p in enumerate(perms):
                r, _ = _run_once(case, tmp, case["w1"], f"p{k}", models_in=[models[i] for i in p])
                out["perms"]["".join(map(str, p))] = {"scores": r["scores"], "files": r["files"]}
    sys.stdout.write("\n@@RESULT@@" + json.dumps(out))


def _child(case, hseed, full):
    env = dict(os.environ)
    env["PYTHONHASHSEED"] = str(hseed)
    env["VERIF_REPO"] = REPO
    code = "import sys; sys.path.insert(0, %r); import core; core.bootstrap(); from props import c08; c08.child_main()" % str(HARNESS)
    p = subprocess.run([sys.executable, "-c", code], input=json.dumps({**case, "full": full}), capture_output=True, text=True, env=env, timeout=1500)
    if p.returncode != 0 or "@@RESULT@@" not in p.stdout:
        err = (p.stderr or "")[-1500:]
        if "RuntimeError" in err and ("Failed to calibrate" in err or "No PSMs" in err):
            from core import Rejected

            raise Rejected("training/calibration rejected the dataset")
        raise Violation("run-failed", f"PYTHONHASHSEED={hseed}: the analysis failed: {err[-600:]}")
    return json.loads(p.stdout.split("@@RESULT@@")[1])


def _diff(a, b, label):
    for k in ("folds", "models", "scores", "fasta"):
        if k in a or k in b:
            require(a.get(k) == b.get(k), f"differs:{k}", f"{label}: {k} digest {a.get(k)} != {b.get(k)}")
    require(sorted(a["files"]) == sorted(b["files"]), "differs:file-set", f"{label}: {sorted(a['files'])} vs {sorted(b['files'])}")
    for f in a["files"]:
        require(a["files"][f] == b["files"][f], "differs:file", f"{label}: result file {f} is not byte-identical")


def check(case):
    c1 = _child(case, case["h1"], True)
    c2 = _child(case, case["h2"], False)
    A = c1["A"]
    _diff(A, c1["repeat"], "repeat in the same process")
    _diff(A, c1["workers"], f"max_workers {case['w1']} vs {case['w2']}")
    _diff(A, c2["A"], f"fresh interpreters with PYTHONHASHSEED {case['h1']} vs {case['h2']}")
    for c in (c1, c2):
        again = c["A"].get("same_proteins_again")
        if again is not None:
            require(sorted(again) == sorted(c["A"]["files"]), "differs:file-set", f"second confidence assignment with the same Proteins object: {sorted(again)}")
            for f in again:
                require(again[f] == c["A"]["files"][f], "differs:repeat-same-proteins-object",
                        f"confidence assignment repeated in one process with the same Proteins object: result file {f} is not byte-identical")
    for c in (c1, c2):
        t1, t2 = c["A"]["user_score_twice"]
        for f in t1:
            require(t1[f] == t2.get(f), "differs:repeat-same-arrays",
                    f"assign_confidence called twice in one process with the same (lower-is-better) score arrays: {f} differs")
    for f in c1["A"]["user_score_twice"][0]:
        require(c1["A"]["user_score_twice"][0][f] == c2["A"]["user_score_twice"][0][f], "differs:file",
                f"user-score analysis across interpreters: {f} differs")
    nperm = 0
    for p, r in c1["perms"].items():
        require(r["scores"] == A["scores"], "differs:model-order", f"feeding the returned models back in order {p} changes the scores")
        for f in A["files"]:
            require(r["files"].get(f) == A["files"][f], "differs:model-order", f"models in order {p}: result file {f} differs")
        nperm += 1
    classes = [case["learner"], f"folds{case['folds']}", f"key{case['key']}", case["fmt"]]
    if case.get("second"):
        classes.append("two-collections-brewed-jointly")
    if case.get("ensemble"):
        classes.append("ensemble")
        if 1 < max(case["w1"], case["w2"]) and min(max(case["w1"], 1), max(case["w2"], 1)) < case["folds"]:
            classes.append("ensemble-worker-count-between-1-and-folds")
    if case.get("cap"):
        classes.append("training-cap")
    if case["proteins"] and not case.get("fasta_decoys", True):
        classes.append("target-only-database")
    if case["proteins"]:
        classes.append("protein-level")
    if c1.get("untrained"):
        classes.append("untrained-models")
    return {"nontrivial": case["folds"] >= 3 and case["h1"] != case["h2"], "classes": classes,
            "counters": {"model_orders": nperm, "digests_compared": 3 * (4 + len(A["files"])) + nperm * (1 + len(A["files"]))}}
