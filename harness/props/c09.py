"""C09 - a run's results depend only on its inputs, not on leftovers of earlier runs."""

from __future__ import annotations

import contextlib
import io
import os
import shutil
from pathlib import Path

import numpy as np
import pandas as pd
from hypothesis import strategies as st

import config_inject
import datagen
from core import Rejected, Violation, guarded, require, scratch_dir

ID = "C09"
LEVEL = "fault_enumeration"
TECHNIQUE = (
    "Hypothesis-generated directory histories: 1-3 earlier assign_confidence runs (own data, chunk size, prefix, "
    "format), each completed or killed at an enumerated write / append / unlink call (before or after the call), then "
    "the observed run (optionally with protein level); CLI histories with an interrupted or foreign <pin>.tsv; histories of the "
    "stand-alone rollup tool (roll up, change the input set, roll up again in the same directory). Oracle = differential against the "
    "same run in a clean directory, directory listing, and a reference PIN conversion"
)
RULE = (
    "history = earlier runs [(rows, confidence chunk size, prefix, tsv/parquet, crash point k or completed)] + observed "
    "run (rows possibly an exact multiple of its chunk size, chunk size, prefix possibly equal to an earlier one). quick: "
    "up to 8 crash points per history sampled by Hypothesis; thorough: every crash point of the last earlier run "
    "(exhaustive per history). CLI history = ragged PIN + earlier main() killed after j converted lines or a foreign "
    "leftover .tsv. Non-trivial: the earlier runs left at least one file in the directory that the observed run's paths "
    "or globs can see (same prefix / extension). Distinct = distinct (history, crash point)."
)
ASSUMPTIONS = [
    "fault points are Python-level call sites of DataFrame.to_csv / to_parquet, ParquetWriter init/write/close and "
    "os.unlink; a crash inside a C-level write is represented by the crash before / after that call",
    "earlier runs and the observed run use max_workers=1 (the injected BaseException must unwind the caller)",
    "PEP estimation replaced by the score-function stub",
]
LEVEL_TEXT = (
    "Every generated history is executed against the real code with a crash injected at each enumerated file-system "
    "call of an earlier run; held on all of them. Fault enumeration is exhaustive per history in the thorough tier, "
    "sampled in the quick tier; histories themselves are sampled."
)


def budget(tier):
    if tier == "quick":
        return {"examples": 224, "shards": 16, "time_s": 75}
    return {"examples": 640, "shards": 16, "time_s": 1500, "hard_s": 5400}


class InjectedCrash(BaseException):
    pass


class FaultInjector:
    """Counts calls of the patched primitives; raises InjectedCrash at call number `at`
    (before the call if `after` is False, after it otherwise).  Fires once."""

    def __init__(self, at=None, after=False):
        self.at, self.after, self.n, self.fired = at, after, 0, False
        self.saved = []

    def _wrap(self, owner, name):
        orig = getattr(owner, name)
        inj = self

        def wrapped(*a, **k):
            if inj.fired or inj.at is None:
                if inj.at is None:
                    inj.n += 1
                return orig(*a, **k)
            idx = inj.n
            inj.n += 1
            if idx == inj.at and not inj.after:
                inj.fired = True
                raise InjectedCrash(f"before {name} #{idx}")
            r = orig(*a, **k)
            if idx == inj.at and inj.after:
                inj.fired = True
                raise InjectedCrash(f"after {name} #{idx}")
            return r

        self.saved.append((owner, name, orig))
        setattr(owner, name, wrapped)

    def __enter__(self):
        import pyarrow.parquet as pq

        self._wrap(pd.DataFrame, "to_csv")
        self._wrap(pd.DataFrame, "to_parquet")
        self._wrap(pq.ParquetWriter, "write_table")
        self._wrap(pq.ParquetWriter, "close")
        self._wrap(os, "unlink")
        return self

    def __exit__(self, *exc):
        for owner, name, orig in reversed(self.saved):
            setattr(owner, name, orig)
        return False


@st.composite
def _run_spec(draw, observed=False):
    chunk = draw(st.sampled_from([3, 5, 7, 10, 16]))
    if observed and draw(st.booleans()):
        n = chunk * draw(st.integers(1, 5))  # exact multiple: the last chunk is full
    else:
        n = draw(st.integers(6, 60))
    return {"seed": draw(st.integers(0, 2**31 - 1)), "n": n, "chunk": chunk,
            "prefix": draw(st.sampled_from([None, None, "a", "b", "s[1]"])), "fmt": draw(st.sampled_from(["tsv", "tsv", "parquet"])),
            "two_datasets": draw(st.sampled_from([False, True])),
            "dedup": draw(st.booleans()), "rollup": draw(st.sampled_from([True, True, False])),
            "proteins": draw(st.sampled_from([False, False, True])),
            # the run may be a verbose one (`-v 3`: mokapot's loggers at DEBUG level); results and clean-up do not depend on it
            "verbose": draw(st.sampled_from([False, False, True]))}


@st.composite
def _case(draw, tier):
    if draw(st.integers(0, 11)) == 0:
        return {"kind": "sqlite", "seed": draw(st.integers(0, 2**31 - 1)), "n": draw(st.integers(60, 200)), "decoys": draw(st.booleans()),
                "fmt": draw(st.sampled_from(["tsv", "parquet"]))}
    if draw(st.integers(0, 5)) == 0:
        return {"kind": "cli", "seed": draw(st.integers(0, 2**31 - 1)), "n_spectra": draw(st.integers(120, 200)),
                "leftover": draw(st.sampled_from(["crash", "crash", "crash", "foreign-valid", "foreign-garbage", "older-version"])),
                "j": draw(st.integers(0, 400)), "rect": draw(st.sampled_from([False, False, True])),
                # after an interrupted run on this very input the user simply starts mokapot again, without restoring the file
                "rerun_as_is": draw(st.sampled_from([True, True, False]))}
    if draw(st.integers(0, 6)) == 0:
        return {"kind": "rollup", "seed": draw(st.integers(0, 2**31 - 1)), "first": draw(st.lists(st.sampled_from(["a", "b", "c", "d"]), min_size=1, max_size=3, unique=True)),
                "second": draw(st.lists(st.sampled_from(["a", "b", "c", "d", "e"]), min_size=1, max_size=3, unique=True)),
                "level": draw(st.sampled_from(["peptide", "peptide", "psm"])), "crash": draw(st.sampled_from([None, None, draw(st.integers(0, 30))])),
                "regen": draw(st.booleans())}
    nearlier = draw(st.sampled_from([1, 1, 2, 3]))
    earlier = [draw(_run_spec()) for _ in range(nearlier)]
    obs = draw(_run_spec(observed=True))
    if draw(st.booleans()):
        # the interesting alignment: same prefix, format and chunk size, earlier run has more chunks
        earlier[-1].update(prefix=obs["prefix"], fmt=obs["fmt"], chunk=obs["chunk"], n=obs["n"] + obs["chunk"] * draw(st.integers(1, 3)) + draw(st.integers(0, 2)))
    for e in earlier[:-1]:
        e["crash"] = draw(st.sampled_from([None, None, draw(st.integers(0, 80))]))
    ks = "all" if tier != "quick" else sorted(draw(st.lists(st.integers(0, 120), min_size=3, max_size=8, unique=True)))
    if draw(st.integers(0, 3)) == 0:
        # no score vectors are handed over: each run ranks by the best feature of its own collection(s)
        for e in earlier + [obs]:
            e["best_feature_scores"] = True
        if draw(st.booleans()):
            earlier[-1]["n"] = obs["n"]
    return {"kind": "api", "earlier": earlier, "observed": obs, "ks": ks, "after": draw(st.booleans())}


def strategy(tier):
    return _case(tier)


# ---------------------------------------------------------------------------
def _dataset(spec, tmp, tag):
    df, meta = datagen.psm_frame(spec["seed"], [2 if i % 3 == 0 else 1 for i in range(max(2, spec["n"] * 3 // 4))][: spec["n"]] or [1],
                                 key_arity=2, n_noise=1, with_rid=False, id_prefix=tag)
    df = df.iloc[: spec["n"]].reset_index(drop=True)
    meta = {**meta, "is_target": meta["is_target"][: spec["n"]]}
    ext = ".parquet" if spec["fmt"] == "parquet" else ".pin"
    path = Path(tmp) / f"in_{tag}{ext}"
    datagen.write_table(df, path)
    rng = np.random.default_rng(spec["seed"] + 1)
    scores = np.round(rng.normal(0, 1, len(df)) + np.where(meta["is_target"], 1.0, 0.0), 5) + np.arange(len(df)) * 1e-7
    ds = datagen.build_ondisk(path, df, meta)
    ds._verif_peptides = (df["Peptide"].tolist(), meta["is_target"].tolist())
    return ds, scores


def _proteins_for(ds):
    from mokapot.proteins import Proteins

    peps, tg = ds._verif_peptides
    pmap, order = {}, {}
    for p, t in zip(peps, tg):
        k = order.setdefault(p, len(order)) % 12
        pmap[p] = f"G{k}" if t else f"decoy_G{k}"
    return Proteins(decoy_prefix="decoy_", peptide_map=pmap, shared_peptides={}, protein_map={f"G{k}": f"decoy_G{k}" for k in range(12)},
                    has_decoys=True)


def _assign(spec, ds, scores, dest, explicit_best=False):
    import mokapot

    config_inject.install_pep_stub()
    prot = _proteins_for(ds) if (spec.get("proteins") and spec["rollup"]) else None
    dss, scs = [ds], [scores.copy()]
    if spec.get("two_datasets") and spec["prefix"] is None and prot is None:
        # an aggregated analysis: two collections written, one after the other, to the same un-prefixed result files
        ds2, sc2 = _dataset({**spec, "seed": spec["seed"] + 4242, "n": max(6, spec["n"] // 2)}, Path(ds.filename).parent, "agg_")
        dss.append(ds2)
        scs.append(sc2.copy())
    # (ranking by the best feature needs a feature that accepts something: a lenient threshold for the small tables used here)
    fdr = 0.9 if spec.get("best_feature_scores") else 0.1
    with config_inject.chunk_sizes(confidence=spec["chunk"]):
        if spec.get("best_feature_scores") and explicit_best:
            # reference for the runs below: the same ranking, handed over explicitly
            scs = []
            for d_ in dss:
                feat = d_.find_best_feature(fdr)[0]
                scs.append(np.asarray(d_.read_data(columns=[feat])[feat].values).copy())
        elif spec.get("best_feature_scores"):
            scs = None  # the documented default: every collection is ranked by its own best feature
        kw = {} if scs is None else {"scores": scs}  # (the argument is left out, as a caller relying on the default does)
        import logging

        mlog = logging.getLogger("mokapot")
        old_level, old_disable, old_prop = mlog.level, logging.root.manager.disable, mlog.propagate
        null = logging.NullHandler()
        if spec.get("verbose"):
            # (the harness silences logging globally; a verbose run has it enabled, the records go to a null handler)
            logging.disable(logging.NOTSET)
            mlog.setLevel(logging.DEBUG)
            mlog.addHandler(null)
            mlog.propagate = False
        try:
            mokapot.assign_confidence(dss, max_workers=1, **kw, descs=[True] * len(dss), eval_fdr=fdr, dest_dir=Path(dest),
                                      prefixes=[spec["prefix"]] * len(dss), decoys=True, deduplication=spec["dedup"], do_rollup=spec["rollup"],
                                      proteins=prot, peps_algorithm="verif_stub")
        finally:
            mlog.setLevel(old_level)
            mlog.removeHandler(null)
            mlog.propagate = old_prop
            logging.disable(old_disable)


def _expected_files(spec):
    pre = f"{spec['prefix']}." if spec["prefix"] else ""
    levels = ["psms"] + (["peptides"] if spec["rollup"] else []) + (["proteins"] if (spec.get("proteins") and spec["rollup"]) else [])
    return {f"{pre}{td}.{lv}" for lv in levels for td in ("targets", "decoys")}


def _intermediates(spec, nrows):
    pre = f"{spec['prefix']}." if spec["prefix"] else ""
    ext = ".parquet" if spec["fmt"] == "parquet" else ".pin"
    nchunks = -(-nrows // spec["chunk"])
    out = {f"{pre}scores_metadata_{i}{ext}" for i in range(nchunks)}
    out |= {f"psms{ext}"} | ({f"peptides{ext}"} if spec["rollup"] else set())
    if spec.get("proteins") and spec["rollup"]:
        out |= {f"proteins{ext}"}
    return out


def _listing(d):
    return {p.name for p in Path(d).iterdir()}


def _check_api(case):
    obs = case["observed"]
    counters = {"fault_points_executed": 0, "histories": 1}
    with scratch_dir() as tmp:
        data = tmp / "data"
        data.mkdir()
        ds_specs = []
        for i, e in enumerate(case["earlier"]):
            ds_specs.append((e, f"e{i}_"))
        # ---- clean reference of the observed run --------------------------------------
        clean = tmp / "clean"
        clean.mkdir()
        ods, oscores = _dataset(obs, data, "obs_")
        try:
            guarded(_assign, obs, ods, oscores, clean, explicit_best=True, sig="clean-run")
        except Violation as v:
            raise Rejected("observed run fails in a clean directory: " + v.message[:80]) from None
        ref = {f: (clean / f).read_bytes() for f in _listing(clean)}
        require(set(ref) == _expected_files(obs), "clean-listing", f"clean directory holds {sorted(ref)}; expected {sorted(_expected_files(obs))}")
        # ---- number of fault points of the last earlier run -----------------------------
        last = case["earlier"][-1]
        probe = tmp / "probe"
        probe.mkdir()
        lds, lscores = _dataset(last, data, "last_")
        with FaultInjector(at=None) as inj:
            # (an earlier run is an ordinary run: only the deliberate "nothing accepted" rejection excuses its failure)
            guarded(_assign, last, lds, lscores, probe, allowed=[(RuntimeError, "No PSMs found below")], sig="earlier-run")
        N = inj.n
        ks = list(range(N)) if case["ks"] == "all" else sorted({k % N for k in case["ks"]})
        afters = [False, True] if case["ks"] == "all" else [case["after"]]
        visible = False
        for k in ks:
            for after in afters:
                d = tmp / f"hist_{k}_{int(after)}"
                d.mkdir()
                # earlier runs
                for i, e in enumerate(case["earlier"][:-1]):
                    eds, esc = _dataset(e, data, f"e{i}_")
                    with FaultInjector(at=e.get("crash"), after=False):
                        try:
                            _assign(e, eds, esc, d)
                        except InjectedCrash:
                            pass
                        except Exception:  # noqa: BLE001
                            pass
                lds, lscores = _dataset(last, data, "last_")
                with FaultInjector(at=k, after=after):
                    try:
                        _assign(last, lds, lscores, d)
                    except InjectedCrash:
                        pass
                counters["fault_points_executed"] += 1
                before = _listing(d)
                mine = _intermediates(obs, len(oscores)) | _expected_files(obs)
                pre = f"{obs['prefix']}." if obs["prefix"] else ""
                ext = ".parquet" if obs["fmt"] == "parquet" else ".pin"
                if any(f.startswith(f"{pre}scores_metadata_") and f.endswith(ext) for f in before) or (before & mine):
                    visible = True
                ods2, oscores2 = _dataset(obs, data, "obs_")
                where = f"earlier run killed {'after' if after else 'before'} file-system call {k} of {N}; debris {sorted(before)[:6]}"
                try:
                    _assign(obs, ods2, oscores2, d)
                except BaseException as ex:  # noqa: BLE001
                    raise Violation("fails-on-debris", f"the run succeeds in a clean directory but fails here ({type(ex).__name__}: {str(ex)[:150]}); {where}") from None
                after_l = _listing(d)
                for f, b in ref.items():
                    require(f in after_l, "result-missing", f"{f} not written; {where}")
                    require((d / f).read_bytes() == b, "result-altered",
                            f"{f} differs from the result of the same run in a clean directory ({len((d / f).read_bytes())} vs {len(b)} bytes); {where}")
                leftover = after_l & _intermediates(obs, len(oscores))
                require(not leftover, "intermediate-left", f"intermediate files of this run remain: {sorted(leftover)}; {where}")
                require(after_l <= before | set(ref), "unexpected-files", f"new files {sorted(after_l - before - set(ref))}; {where}")
                shutil.rmtree(d, ignore_errors=True)
    classes = ["api", obs["fmt"]]
    if visible:
        classes.append("visible-debris")
    if len(oscores) % obs["chunk"] == 0:
        classes.append("observed-rows-multiple-of-chunk")
    if len(case["earlier"]) > 1:
        classes.append("several-earlier-runs")
    if obs.get("two_datasets") and obs["prefix"] is None:
        classes.append("aggregated-two-datasets")
    if obs["prefix"] and "[" in obs["prefix"]:
        classes.append("prefix-with-glob-characters")
    if case["ks"] == "all":
        classes.append("all-crash-points")
    if obs.get("best_feature_scores"):
        classes.append("scores-not-handed-over-best-feature")
    return {"nontrivial": visible, "classes": classes, "counters": counters}


# ---------------------------------------------------------------------------
def pin_convert_ref(text):
    lines = text.split("\n")
    if lines and lines[-1] == "":
        lines = lines[:-1]
    header = lines[0].split("\t")
    n, ip = len(header), header.index("Proteins")
    out = [lines[0]]
    for ln in lines[1:]:
        if ln.startswith("DefaultDirection"):
            continue
        f = ln.split("\t")
        extra = len(f) - n
        out.append("\t".join(f[:ip] + [":".join(f[ip:ip + extra + 1])] + f[ip + extra + 1:]))
    return "\n".join(out) + "\n"


def _ragged_pin(seed, ns, rect=False):
    rng = np.random.default_rng(seed)
    lines = ["SpecId\tLabel\tScanNr\tExpMass\tf0\tf1\tPeptide\tProteins"]
    pool = datagen.peptide_pool(rng, 80)
    for s in range(ns):
        for lab in (1, -1):
            good = lab == 1 and rng.random() < 0.5
            prots = [f"{'' if lab == 1 else 'decoy_'}P{int(x)}" for x in rng.integers(0, 50, int(rng.integers(1, 4)))]
            if rect:  # an input that is already a rectangular table: the verify step has nothing to convert
                prots = prots[:1]
            lines.append("\t".join([f"s{s}_{lab}", str(lab), str(100 + s), repr(round(500 + s * 1.5, 3)),
                                    repr(round(float(rng.normal(3.0 if good else 0.0, 1)), 5)), repr(round(float(rng.normal(0, 1)), 5)),
                                    pool[int(rng.integers(0, 80))] if lab == 1 else pool[int(rng.integers(0, 80))][::-1]] + prots))
    return "\n".join(lines) + "\n"


def _cli(pin, dest):
    from mokapot import mokapot as cli

    args = [str(pin), "--dest_dir", str(dest), "--max_iter", "1", "--folds", "2", "--train_fdr", "0.2", "--test_fdr", "0.2",
            "--keep_decoys", "--verbosity", "0", "--seed", "1", "--peps_algorithm", "hist_nnls"]
    with contextlib.redirect_stderr(io.StringIO()), contextlib.redirect_stdout(io.StringIO()):
        cli.main(args)


def _check_cli(case):
    from mokapot import mokapot as cli

    rect = bool(case.get("rect"))
    text = _ragged_pin(case["seed"], case["n_spectra"], rect)
    exp_input = text if rect else pin_convert_ref(text)
    with scratch_dir() as tmp:
        # clean reference
        cdir = tmp / "clean"
        cdir.mkdir()
        (cdir / "exp.pin").write_text(text)
        try:
            guarded(_cli, cdir / "exp.pin", cdir / "out", sig="cli-clean")
        except Violation as v:
            raise Rejected("CLI run fails on the clean input: " + v.message[:100]) from None
        require((cdir / "exp.pin").read_text() == exp_input, "clean-conversion", "clean run: the rewritten input is not the reference conversion")
        ref = {p.name: p.read_bytes() for p in (cdir / "out").iterdir()}
        # history
        hdir = tmp / "hist"
        hdir.mkdir()
        pin = hdir / "exp.pin"
        pin.write_text(text)
        left = Path(str(pin) + ".tsv")
        kind = case["leftover"]
        if kind in ("crash", "older-version"):
            src_text = text if (kind == "crash" and not rect) else _ragged_pin(case["seed"] + 1, case["n_spectra"] + 20)
            pin.write_text(src_text)
            # the converter is patched wherever the CLI may look it up (its own namespace and the parser module)
            from mokapot.parsers import pin_to_tsv as ptmod

            real = ptmod.pin_to_valid_tsv
            holders = [m for m in (cli, ptmod) if getattr(m, "pin_to_valid_tsv", None) is real]
            nlines = src_text.count("\n")
            j = case["j"] % (nlines + 1)

            def crashing(f_in, f_out, **kw):
                class Proxy:
                    def __init__(self):
                        self.n = 0

                    def write(self, s):
                        if self.n >= j:
                            f_out.flush()
                            raise InjectedCrash(f"killed after {self.n} written lines")
                        self.n += 1
                        return f_out.write(s)

                return real(f_in, Proxy(), **kw)

            for m in holders:
                m.pin_to_valid_tsv = crashing
            try:
                try:
                    _cli(pin, hdir / "out_earlier")
                except InjectedCrash:
                    pass
                except BaseException:  # noqa: BLE001
                    pass
            finally:
                for m in holders:
                    m.pin_to_valid_tsv = real
            if kind == "crash" and not rect and case.get("rerun_as_is"):
                # the user starts the same command again on the file as the interrupted run left it: it must still be the
                # user's data (untouched or completely converted), never a partial product
                now = pin.read_text()
                require(now in (text, exp_input), "input-destroyed-by-interrupted-run",
                        f"after a run killed during the conversion (j={j}) the input file holds {now.count(chr(10))} lines, "
                        f"the user's file had {text.count(chr(10))}")
            else:
                pin.write_text(text)  # the user (re-)provides the input for the observed run
        elif kind == "foreign-valid":
            left.write_text("SpecId\tLabel\tScanNr\tExpMass\tf0\tf1\tPeptide\tProteins\nzz\t1\t5\t1.0\t0.5\t0.5\tPEPK\tPX\n")
        else:
            left.write_text("garbage without any tabs\nmore garbage\n")
        had_left = left.exists()
        where = f"leftover kind {kind}, j={case['j']}, leftover present={had_left}"
        try:
            _cli(pin, hdir / "out")
        except BaseException as ex:  # noqa: BLE001
            raise Violation("cli-fails-on-leftover", f"the CLI succeeds on a clean directory but fails here: {type(ex).__name__}: {str(ex)[:200]}; {where}") from None
        got_input = pin.read_text()
        require(got_input == exp_input, "input-replaced",
                f"after the run the user's input file is not the conversion of its own content ({got_input.count(chr(10))} lines vs {exp_input.count(chr(10))}); {where}")
        out = {p.name: p.read_bytes() for p in (hdir / "out").iterdir()}
        require(set(out) == set(ref), "cli-files", f"{sorted(out)} vs {sorted(ref)}; {where}")
        for f in ref:
            require(out[f] == ref[f], "cli-result-altered", f"{f} differs from the clean-directory result; {where}")
        # (a scratch file remaining next to the *input* is reported as a class only: the statement speaks of intermediates in
        #  the destination directory; what matters here is that leftovers never alter the input or the results)
        stray = ["scratch-file-next-to-input-after-run"] if left.exists() else []
    return {"nontrivial": had_left or bool(case.get("rerun_as_is")), "classes": ["cli", "leftover-" + kind] + stray
            + (["cli-rerun-on-file-as-left-by-interrupted-run"] if (kind == "crash" and not rect and case.get("rerun_as_is")) else [])
            + (["cli-input-already-rectangular"] if rect else []),
            "counters": {"cli_histories": 1}}


def _make_level_files(tmp, name, seed, n):
    """result files <name>.targets.{psms,peptides} / decoys.* produced by a real assign_confidence run"""
    spec = {"seed": seed, "n": n, "chunk": 1000, "prefix": name, "fmt": "tsv", "dedup": True, "rollup": True, "proteins": False}
    d = tmp / f"gen_{name}_{seed}"
    d.mkdir()
    ds, sc = _dataset(spec, d, f"{name}{seed % 97}_")
    out = d / "out"
    out.mkdir()
    _assign(spec, ds, sc, out)
    return out


def _run_rollup(src, level):
    from mokapot import brew_rollup
    import mokapot.peps as mpeps

    config_inject.install_pep_stub()
    saved = mpeps.PEP_ALGORITHM["qvality"]
    mpeps.PEP_ALGORITHM["qvality"] = mpeps.PEP_ALGORITHM["verif_stub"]
    try:
        brew_rollup.main(["--level", level, "--src_dir", str(src), "--dest_dir", str(src), "--verbosity", "0"])
    finally:
        mpeps.PEP_ALGORITHM["qvality"] = saved


def _check_rollup(case):
    """History for the stand-alone rollup tool: roll up, change the set of input files, roll up again in the same
    directory; the second result must equal the result of the same rollup in a directory that never saw the first."""
    level = case["level"]
    with scratch_dir() as tmp:
        def populate(d, names, gen):
            for nm in names:
                src = _make_level_files(tmp, nm, case["seed"] + (17 * gen if case["regen"] else 0) + ord(nm), 30 + 7 * (ord(nm) % 5))
                for f in src.iterdir():
                    if f.name.endswith(f".{level}s"):
                        shutil.copy(f, d / f.name)
                shutil.rmtree(src.parent, ignore_errors=True)
        hist = tmp / "hist"
        hist.mkdir()
        populate(hist, case["first"], 0)
        with FaultInjector(at=case["crash"], after=False):
            try:
                _run_rollup(hist, level)
            except InjectedCrash:
                pass
            except BaseException as e:  # noqa: BLE001
                raise Rejected(f"first rollup fails by itself: {type(e).__name__}: {str(e)[:60]}") from None
        # the user changes the inputs: result files of experiments not in the second set are withdrawn
        for f in list(hist.iterdir()):
            if not f.name.startswith("rollup.") and f.name.split(".")[0] not in case["second"]:
                f.unlink()
        for f in list(hist.iterdir()):
            if not f.name.startswith("rollup."):
                f.unlink()
        populate(hist, case["second"], 1)
        clean = tmp / "clean"
        clean.mkdir()
        populate(clean, case["second"], 1)
        try:
            guarded(_run_rollup, clean, level, sig="rollup-clean")
        except Violation as v:
            raise Rejected("rollup fails on the clean directory: " + v.message[:80]) from None
        debris = sorted(f.name for f in hist.iterdir() if f.name.startswith("rollup."))
        where = f"first rollup over {case['first']} ({'killed at call ' + str(case['crash']) if case['crash'] is not None else 'completed'}), second over {case['second']}; leftovers {debris}"
        try:
            _run_rollup(hist, level)
        except BaseException as ex:  # noqa: BLE001
            raise Violation("rollup-fails-on-leftover", f"{type(ex).__name__}: {str(ex)[:150]}; {where}") from None
        outs = [f.name for f in clean.iterdir() if f.name.startswith("rollup.targets.") or f.name.startswith("rollup.decoys.")]
        require(outs, "harness-rollup", "no rollup output")
        for f in outs:
            require((hist / f).exists(), "rollup-result-missing", f"{f}; {where}")
            require((hist / f).read_bytes() == (clean / f).read_bytes(), "rollup-result-altered",
                    f"{f} differs from the same rollup in a clean directory ({len((hist / f).read_bytes())} vs {len((clean / f).read_bytes())} bytes); {where}")
    return {"nontrivial": bool(debris) and set(case["first"]) != set(case["second"]), "classes": ["rollup-history", "level-" + level],
            "counters": {"rollup_histories": 1}}


def _check_sqlite(case):
    """Results go to an SQLite database: the destination directory holds no result file at all, so after a successful
    run it must be as empty as before (with or without decoy results)."""
    import sqlite3

    import mokapot

    config_inject.install_pep_stub()
    n = case["n"]
    with scratch_dir() as tmp:
        df, meta = datagen.psm_frame(case["seed"], [1] * n, key_arity=2, n_noise=1, with_rid=False)
        df["SpecId"] = np.arange(len(df))
        path = Path(tmp) / ("x.parquet" if case["fmt"] == "parquet" else "x.pin")
        datagen.write_table(df, path)
        db = Path(tmp) / "results.db"
        con = sqlite3.connect(db)
        con.execute("CREATE TABLE CANDIDATE (CANDIDATE_ID INTEGER NOT NULL, PSM_FDR REAL, SVM_SCORE REAL, POSTERIOR_ERROR_PROBABILITY REAL, "
                    "PRIMARY KEY (CANDIDATE_ID));")
        con.execute("CREATE TABLE PEPTIDE_VALIDATION (PEPTIDE_ID TEXT NOT NULL, FDR REAL, PEP REAL, SVM_SCORE REAL, PRIMARY KEY (PEPTIDE_ID));")
        con.executemany("INSERT INTO CANDIDATE (CANDIDATE_ID) VALUES (?);", [(int(i),) for i in df["SpecId"]])
        con.commit()
        con.close()
        dest = Path(tmp) / "dest"
        dest.mkdir()
        sc = df["f0"].values.astype(float) + np.arange(len(df)) * 1e-9
        for rep in (1, 2):
            guarded(mokapot.assign_confidence, [datagen.build_ondisk(path, df, meta)], max_workers=1, scores=[sc.copy()], descs=[True], eval_fdr=0.2,
                    dest_dir=dest, prefixes=[None], decoys=case["decoys"], peps_algorithm="verif_stub", sqlite_path=db, sig="assign_confidence")
            left = _listing(dest)
            require(not left, "intermediate-left",
                    f"results go to the SQLite database (decoys={case['decoys']}), yet run {rep} leaves {sorted(left)} in the destination directory")
            con = sqlite3.connect(db)
            upd = con.execute("SELECT count(*) FROM CANDIDATE WHERE PSM_FDR IS NOT NULL").fetchone()[0]
            npep = con.execute("SELECT count(*) FROM PEPTIDE_VALIDATION").fetchone()[0]
            con.execute("DELETE FROM PEPTIDE_VALIDATION")
            con.execute("UPDATE CANDIDATE SET PSM_FDR = NULL")
            con.commit()
            con.close()
            want = len(df) if case["decoys"] else int(np.sum(meta["is_target"]))
            require(upd == want and npep > 0, "sqlite-rows", f"run {rep}: {upd} PSMs updated in the database, expected {want}; {npep} peptide rows")
    return {"nontrivial": True, "classes": ["sqlite-output", "sqlite-with-decoys" if case["decoys"] else "sqlite-targets-only"],
            "counters": {"sqlite_runs": 2}}


def check(case):
    if case.get("kind") == "sqlite":
        return _check_sqlite(case)
    if case["kind"] == "cli":
        return _check_cli(case)
    if case["kind"] == "rollup":
        return _check_rollup(case)
    return _check_api(case)
