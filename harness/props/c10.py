"""C10 - every well-formed PIN/Parquet PSM table parses into a faithful dataset."""

from __future__ import annotations

import numpy as np
import pandas as pd
from hypothesis import strategies as st

import config_inject
import core
from core import Violation, guarded, require, scratch_dir

ID = "C10"
LEVEL = "exploration"
TECHNIQUE = (
    "Hypothesis-generated table layouts (feature count covering every residue modulo the column-scan chunk size, "
    "column order, name casing, optional columns, label encoding, NaN placement, int/float features, scan chunk "
    "sizes, workers, tsv/Parquet) parsed with read_pin and compared with the generator's own table model; ill-formed "
    "variants must raise"
)
RULE = (
    "case = (rows 3-40, 1-60 features incl. integer-typed and Charge* columns, drawn column order and casing of "
    "reserved names, optional filename/calcmass/expmass/ret_time (default names in any casing, or custom names passed to read_pin explicitly) and level columns, label encoding pm1/01/bool, "
    "NaN cells at drawn (column,row) positions, colscan chunk in {3,5,19}, rowscan chunk in {1,2,n-1,n,big}, workers "
    "1-4, tsv/parquet, negative variant none/missing-column/bad-label). Non-trivial: (features+identifiers) mod "
    "colscan chunk in 1..identifiers-1, or >=1 NaN column, or >=2 row chunks. Distinct = distinct canonical JSON."
)
ASSUMPTIONS = [
    "well-formed = reserved names unique up to case, no feature named like a reserved column, rectangular table",
    "feature values are finite numbers or missing; missing cells are nulls in Parquet and, in text, empty fields or one of the "
    "usual spellings a pandas-based reader recognises (NaN, nan, NA, N/A, null, NULL, #N/A)",
]

REQUIRED = ["SpecId", "Label", "ScanNr", "Peptide", "Proteins"]
OPTIONAL = ["filename", "calcmass", "expmass", "ret_time"]
LEVELS = ["ModifiedPeptide", "Precursor", "PeptideGroup"]
CUSTOM = {"filename": "RawFile", "calcmass": "TheoMass", "expmass": "MeasuredMass", "ret_time": "RTsec"}
ARGNAME = {"filename": "filename_column", "calcmass": "calcmass_column", "expmass": "expmass_column", "ret_time": "rt_column"}


def budget(tier):
    if tier == "quick":
        return {"examples": 1600, "shards": 16, "time_s": 60}
    return {"examples": 64000, "shards": 16, "time_s": 1500}


def _recase(draw, name):
    kind = draw(st.sampled_from(["asis", "lower", "upper", "mixed"]))
    if kind == "asis":
        return name
    if kind == "lower":
        return name.lower()
    if kind == "upper":
        return name.upper()
    flips = draw(st.lists(st.booleans(), min_size=len(name), max_size=len(name)))
    return "".join(c.upper() if f else c.lower() for c, f in zip(name, flips))


LOOKALIKES = ["scan_nr", "Exp_Mass", "file_name", "rettime", "spec_id", "calc_mass", "_Label", "Peptide_", "proteins2", "ScanNr.1",
              "spec-id", "label2", "mod_peptide", "exp mass", "Labels", "xScanNr"]


@st.composite
def _case(draw, tier):
    n = draw(st.integers(3, 40))
    nfeat = draw(st.integers(1, 60))
    opt = [o for o in OPTIONAL if draw(st.booleans())]
    lev = [l for l in LEVELS if draw(st.integers(0, 3)) == 0]
    names = {r: _recase(draw, r) for r in REQUIRED + opt + lev}
    # the optional columns may carry names of the user's choosing, handed to read_pin explicitly
    custom = draw(st.sampled_from([False, False, True]))
    if custom:
        for o in opt:
            names[o] = CUSTOM[o]
    feats = []
    for i in range(nfeat):
        kind = draw(st.sampled_from(["float", "float", "float", "int"]))
        nm = f"feat{i}" if draw(st.integers(0, 9)) else f"Charge{i}"
        if draw(st.integers(0, 11)) == 0:
            # a feature whose name merely resembles a reserved one (other spelling, separator, affix): still a feature
            la = draw(st.sampled_from(LOOKALIKES))
            if la not in [f["name"] for f in feats]:
                nm = la
        feats.append({"name": nm, "kind": kind})
    ncols = len(names) + nfeat
    order = draw(st.permutations(list(range(ncols)))) if draw(st.booleans()) else list(range(ncols))
    nan_cols = draw(st.lists(st.integers(0, nfeat - 1), unique=True, max_size=min(4, nfeat)))
    nans = [[c, draw(st.integers(0, n - 1))] for c in nan_cols]
    rowscan = draw(st.sampled_from([None, None, 1, 2, max(1, n - 1), n]))
    return {
        "seed": draw(st.integers(0, 2**31 - 1)),
        "n": n,
        "names": names,
        "feats": feats,
        "order": list(order),
        "label_enc": draw(st.sampled_from(["pm1", "01", "bool"])),
        "nans": nans,
        "colscan": draw(st.sampled_from([3, 5, 19, 19])),
        "rowscan": rowscan,
        "workers": draw(st.integers(1, 4)),
        # the file(s) may be handed over as a path, a text, or any iterable of them (list, tuple, one-shot generator / map)
        "paths_as": draw(st.sampled_from(["list", "list", "tuple", "path", "str", "generator", "map"])),
        "fmt": draw(st.sampled_from(["tsv", "tsv", "parquet"])),
        "negative": draw(st.sampled_from(["none"] * 8 + ["missing", "badlabel"])),
        "neg_pick": draw(st.integers(0, 4)),
        "neg_val": draw(st.integers(0, 9)),
        "custom": custom,
        "nan_values": draw(st.booleans()),
        "na_token": draw(st.sampled_from(["", "", "", "NaN", "nan", "NA", "N/A", "null", "NULL", "#N/A"])),
        # complete float features holding +inf and -inf (saturated scores): infinite is not missing
        "inf_cols": draw(st.lists(st.integers(0, nfeat - 1), unique=True, max_size=2)) if draw(st.integers(0, 3)) == 0 else [],
    }


def strategy(tier):
    return _case(tier)


def _build(case):
    rng = np.random.default_rng(case["seed"])
    n = case["n"]
    names = case["names"]
    is_target = rng.random(n) < 0.5
    is_target[0] = True
    if n > 1:
        is_target[1] = False
    cols = {}
    cols[names["SpecId"]] = [f"id_{i}" for i in range(n)]
    if case["label_enc"] == "pm1":
        lab = [1 if t else -1 for t in is_target]
    elif case["label_enc"] == "01":
        lab = [1 if t else 0 for t in is_target]
    else:
        lab = [bool(t) for t in is_target]
    cols[names["Label"]] = lab
    scans = [int(x) for x in rng.integers(1, 10_000, n)]
    cols[names["ScanNr"]] = scans
    cols[names["Peptide"]] = ["PEPTIDE" + "ACDEFGHIK"[int(x)] for x in rng.integers(0, 9, n)]
    cols[names["Proteins"]] = [f"prot{int(x)}" for x in rng.integers(0, 5, n)]
    if "filename" in names:
        cols[names["filename"]] = [f"run{int(x)}.mzML" for x in rng.integers(0, 2, n)]
    for o in ("calcmass", "expmass", "ret_time"):
        if o in names:
            cols[names[o]] = [round(float(x), 4) for x in 400 + rng.random(n) * 1000]
    for lv in LEVELS:
        if lv in names:
            cols[names[lv]] = [f"{lv[:3]}{int(x)}" for x in rng.integers(0, 6, n)]
    nan_at = {}
    for c, r in case["nans"]:
        nan_at.setdefault(c, set()).add(r)
    for i, f in enumerate(case["feats"]):
        if f["kind"] == "int":
            vals = [int(x) for x in rng.integers(-5, 50, n)]
        else:
            vals = [round(float(x), 6) for x in rng.normal(0, 3, n)]
        if f["kind"] != "int" and i in case.get("inf_cols", ()):
            p1 = (i * 7) % n
            vals[p1], vals[(p1 + 1) % n] = float("inf"), float("-inf")
        vals = [None if r in nan_at.get(i, ()) else v for r, v in enumerate(vals)]
        cols[f["name"]] = vals
    header = list(cols)
    header = [header[i] for i in case["order"]]
    return header, cols, is_target, scans


def _write(case, header, cols, path, label_override=None):
    n = case["n"]
    if case["fmt"] == "parquet":
        import pyarrow as pa
        import pyarrow.parquet as pq

        arrays = []
        for h in header:
            v = cols[h] if label_override is None or h != label_override[0] else label_override[1]
            if case.get("nan_values") and any(x is None for x in v) and all(isinstance(x, float) or x is None for x in v):
                # a writer that stores a missing float as the value NaN, not as a Parquet null (Arrow C++, Spark, Polars)
                arrays.append(pa.array(np.array([np.nan if x is None else x for x in v], dtype=float), from_pandas=False))
            else:
                arrays.append(pa.array(v))
        pq.write_table(pa.Table.from_arrays(arrays, names=header), path)
    else:
        lines = ["\t".join(header)]
        for r in range(n):
            row = []
            for h in header:
                v = (cols[h] if label_override is None or h != label_override[0] else label_override[1])[r]
                if v is None:
                    row.append(case.get("na_token", ""))
                elif isinstance(v, bool):
                    row.append("True" if v else "False")
                elif isinstance(v, float):
                    row.append(repr(v))
                else:
                    row.append(str(v))
            lines.append("\t".join(row))
        path.write_text("\n".join(lines) + "\n")


def check(case):
    import mokapot

    header, cols, is_target, scans = _build(case)
    names = case["names"]
    n = case["n"]
    ext = ".parquet" if case["fmt"] == "parquet" else ".pin"
    neg = case["negative"]
    with scratch_dir() as tmp:
        # history: the same path was parsed before with another layout (stale per-path state must not leak)
        path = core.scratch_root() / f"c10_shared{ext}"
        pre_case = {**case, "fmt": case["fmt"]}
        if neg == "none":
            pre_header = ["SpecId", "Label", "ScanNr", "zzfeat", "Peptide", "Proteins"]
            pre_cols = {"SpecId": ["a", "b"], "Label": [1, -1] if case["fmt"] != "parquet" else [1, -1], "ScanNr": [1, 2], "zzfeat": [0.5, 1.5],
                        "Peptide": ["PEPA", "PEPB"], "Proteins": ["p", "q"]}
            _write({**case, "n": 2}, pre_header, pre_cols, path)
            try:
                mokapot.read_pin([path], max_workers=1)
            except Exception:  # noqa: BLE001  the prelude only creates history
                pass
        hdr, label_override = header, None
        if neg == "missing":
            victim = names[REQUIRED[case["neg_pick"] % len(REQUIRED)]]
            hdr = [h for h in header if h != victim]
        elif neg == "badlabel":
            badval = [2, -2, 3, 255, 256, 257, -255, 65537, 100, -129][case.get("neg_val", 0) % 10]
            bad = [badval if (i == case["neg_pick"] % n) else (1 if t else -1) for i, t in enumerate(is_target)]
            label_override = (names["Label"], bad)
        _write(case, hdr, cols, path, label_override)
        with config_inject.chunk_sizes(colscan=case["colscan"], rowscan=case["rowscan"]):
            if neg != "none":
                try:
                    mokapot.read_pin([path], max_workers=case["workers"])
                except ValueError:
                    return {"nontrivial": True, "classes": ["negative-" + neg], "counters": {"negative": 1}}
                except Exception as e:  # noqa: BLE001
                    raise Violation("ill-formed-wrong-error", f"{neg}: raised {type(e).__name__}: {e}") from None
                raise Violation("ill-formed-accepted", f"{neg}: a table with a missing required column / out-of-range label was parsed without error")
            kw = {ARGNAME[o]: names[o] for o in OPTIONAL if o in names} if case.get("custom") else {}
            from pathlib import Path as _P

            arg = {"list": [path], "tuple": (path,), "path": _P(path), "str": str(path), "generator": (q for q in [path]),
                   "map": map(_P, [str(path)])}[case.get("paths_as", "list")]
            res = guarded(mokapot.read_pin, arg, max_workers=case["workers"], sig="read_pin", **kw)
        require(isinstance(res, list) and len(res) == 1, "shape",
                f"read_pin returns one dataset per file; got {type(res).__name__} of {len(res) if hasattr(res, '__len__') else '?'} for one file handed over as {case.get('paths_as', 'list')}")
        p = res[0]
        sd = p.spectra_dataframe
        require(len(sd) == n, "rows-dropped", f"{len(sd)} entries for {n} input rows")
        scan_col = names["ScanNr"]
        require(p.scan_column == scan_col, "scan-column", f"{p.scan_column} != {scan_col}")
        require([int(x) for x in sd[scan_col].tolist()] == scans, "row-order", "entries are not in file order")
        tg = sd[p.target_column]
        require(p.target_column == names["Label"], "label-column", p.target_column)
        require(tg.dtype == bool and tg.tolist() == [bool(t) for t in is_target], "targets",
                f"target flags differ from labels (encoding {case['label_enc']})")
        exp_spec = {scan_col} | {names[o] for o in ("filename", "expmass", "ret_time") if o in names}
        require(set(p.spectrum_columns) == exp_spec and len(p.spectrum_columns) == len(exp_spec), "spectrum-key",
                f"{p.spectrum_columns} != {sorted(exp_spec)}")
        require(set(p.spectrum_columns) <= set(sd.columns), "spectrum-key", "spectrum columns missing from the spectra frame")
        for sc_ in p.spectrum_columns:
            want = cols[sc_]
            got_v = sd[sc_].tolist()
            if isinstance(want[0], float):
                require(all(abs(float(a) - b) <= 1e-12 * abs(b) for a, b in zip(got_v, want)), "spectrum-key-values",
                        f"{sc_}: key values differ from the table's values (e.g. {got_v[0]!r} vs {want[0]!r})")
            else:
                require([str(a) for a in got_v] == [str(b) for b in want], "spectrum-key-values", f"{sc_}: key values differ from the table")
        nkeys = len(set(zip(*[cols[c] for c in p.spectrum_columns])))
        require(len(sd[list(p.spectrum_columns)].drop_duplicates()) == nkeys, "spectrum-key-values",
                "number of distinct spectrum keys differs from the table's")
        reserved = set(names.values())
        nan_cols = {case["feats"][c]["name"] for c, _ in case["nans"]}
        exp_feats = [h for h in header if h not in reserved and h not in nan_cols]
        require(list(p.feature_columns) == exp_feats, "features",
                f"features {list(p.feature_columns)[:8]}... != expected {exp_feats[:8]}... "
                f"(missing {sorted(set(exp_feats) - set(p.feature_columns))[:4]}, extra {sorted(set(p.feature_columns) - set(exp_feats))[:4]})")
        require(reserved <= set(p.metadata_columns), "metadata", f"reserved columns missing from metadata: {sorted(reserved - set(p.metadata_columns))}")
        require(not (set(p.metadata_columns) & set(exp_feats)), "metadata", "a feature is listed as metadata")
        require(list(p.columns) == header, "columns", "column list differs from the header")
        exp_levels = {names["Peptide"]} | {names[l] for l in LEVELS if l in names}
        require(set(p.level_columns) == exp_levels, "levels", f"{p.level_columns} != {sorted(exp_levels)}")
        require(p.peptide_column == names["Peptide"] and p.protein_column == names["Proteins"] and p.specId_column == names["SpecId"],
                "reserved-columns", "peptide/protein/specid column")
        for o, attr in (("filename", "filename_column"), ("calcmass", "calcmass_column"), ("expmass", "expmass_column"), ("ret_time", "rt_column")):
            require(getattr(p, attr) == names.get(o), "optional-columns", f"{attr}={getattr(p, attr)} expected {names.get(o)}")
        # a dataset description that names a column the file does not have is rejected at construction, also when the
        # declared column list itself carries the stale name (a renamed column, another file's header)
        if p.feature_columns:
            from mokapot.dataset import OnDiskPsmDataset

            victim = p.feature_columns[case["neg_pick"] % len(p.feature_columns)]
            ren = lambda c: ("gone_" + c) if c == victim else c  # noqa: E731
            try:
                OnDiskPsmDataset(filename=path, columns=[ren(c) for c in p.columns], target_column=p.target_column,
                                 spectrum_columns=list(p.spectrum_columns), peptide_column=p.peptide_column, protein_column=p.protein_column,
                                 feature_columns=[ren(c) for c in p.feature_columns], metadata_columns=list(p.metadata_columns),
                                 metadata_column_types=list(p.metadata_column_types), level_columns=list(p.level_columns),
                                 filename_column=p.filename_column, scan_column=p.scan_column, specId_column=p.specId_column,
                                 calcmass_column=p.calcmass_column, expmass_column=p.expmass_column, rt_column=p.rt_column,
                                 charge_column=p.charge_column, spectra_dataframe=sd.copy())
            except ValueError:
                pass
            except Exception as e:  # noqa: BLE001
                raise Violation("ill-formed-wrong-error", f"stale column list: raised {type(e).__name__}: {e}") from None
            else:
                raise Violation("ill-formed-accepted", f"a dataset description naming the column 'gone_{victim}', which the file does not have, "
                                                       "was accepted without error")
        # the dataset is usable: all rows readable with the recorded columns
        data = guarded(p.read_data, columns=list(p.feature_columns) + [p.target_column], sig="read_data")
        require(len(data) == n and not data[list(p.feature_columns)].isna().any().any(), "features-with-missing", "a kept feature has missing values")
    nid = len(exp_spec) + 1
    ntot = len(header) - len(reserved) + nid
    rem = ntot % case["colscan"]
    classes = [case["fmt"], case["label_enc"]]
    tricky = 1 <= rem <= nid - 1
    if tricky:
        classes.append("identifiers-straddle-chunk")
    if nan_cols:
        classes.append("nan-columns")
    rowchunks = case["rowscan"] is not None and case["rowscan"] < n
    if rowchunks:
        classes.append("row-chunks")
    if any(f["kind"] == "int" and f["name"] in nan_cols for f in case["feats"]):
        classes.append("nan-in-int-column")
    if any(case["feats"][i]["kind"] != "int" for i in case.get("inf_cols", ())):
        classes.append("feature-with-both-infinities")
    if nan_cols and case.get("nan_values") and case["fmt"] == "parquet":
        classes.append("parquet-nan-stored-as-value")
    if nan_cols and case.get("na_token") and case["fmt"] == "tsv":
        classes.append("na-token:" + case["na_token"])
    if case.get("custom") and any(o in names for o in OPTIONAL):
        classes.append("explicit-optional-column-names")
    if any(h != h2 for h, h2 in zip(REQUIRED, [names[r] for r in REQUIRED])):
        classes.append("recased")
    return {"nontrivial": bool(tricky or nan_cols or rowchunks), "classes": classes, "counters": {"columns": len(header)}}
