"""C11 - per-fold score calibration is order-preserving and anchors 0 and -1."""

from __future__ import annotations

from fractions import Fraction

import numpy as np
from hypothesis import strategies as st

import brewlib
import recorder
from core import Rejected, require, scratch_dir
from refs import labels_ref, tdc_ref

ID = "C11"
LEVEL = "exploration"
TECHNIQUE = (
    "Hypothesis-generated datasets x folds x evaluation FDRs with recording decision-function estimators; oracle = "
    "per-(file, fold) affine fit of returned scores on logged raw outputs, rank identity, anchors 0 / -1 computed "
    "with the exact TDC reference, explicit-error rule when a fold accepts no target"
)
RULE = (
    "case = C02-style dataset (1-3 files, folds 2-6, key arity, workers, chunk sizes) with estimator Lin, Cubic "
    "(monotone non-linear), LinBoth (decision_function plus predict_proba), LinOffset (raw output on an intercept of 2e6), LinTiny "
    "(raw output of the order 1e-10) or LinTied (output quantised to half units: "
    "tie groups of targets and decoys straddle the acceptance boundary), test_fdr in {0.0731, 0.1279, 0.2113, 0.31, 0.25, 0.5} "
    "(the dyadic values are exactly representable, so a q-value can equal the threshold), strong- or weak-signal data. Non-trivial: "
    ">=3 folds or >=2 files, all folds calibrated, and at least one fold whose accepted set is a strict subset of its "
    "targets; or the explicit-error branch was taken. Distinct = distinct canonical JSON."
)
ASSUMPTIONS = [
    "domain per the statement: folds whose lowest accepted target lies above the decoy median; other folds are only "
    "checked for the affine relation",
    "cases in which an exact q-value lies within 3e-7 (float32 rounding) of test_fdr are discarded as ambiguous",
    "tolerance 1e-9 (absolute, scores are O(1)) plus 16 ulp of the largest raw output divided by the anchor distance on the anchors; 1e-8 relative on the affine residual (raw output standardised)",
]
FDRS = (0.0731, 0.1279, 0.2113, 0.31, 0.25, 0.5)


def budget(tier):
    if tier == "quick":
        return {"examples": 192, "shards": 16, "time_s": 75}
    return {"examples": 4800, "shards": 16, "time_s": 900}


@st.composite
def _case(draw, tier):
    weak = draw(st.sampled_from([False, False, False, False, False, True]))
    c = draw(brewlib.cv_case(tier, estimators=("Lin", "Cubic", "LinBoth", "LinTied", "LinInt", "LinOffset", "LinTiny"), fdrs=FDRS, weak=weak))
    c["cap_kind"] = draw(st.sampled_from(["none", "none", "active"]))
    if weak:
        c["test_fdr"] = draw(st.sampled_from([0.0731, 0.1279]))
    elif c["test_fdr"] == 0.0731:
        c["test_fdr"] = 0.2113
    return c


def strategy(tier):
    return _case(tier)


def _check_same_model(case, dfs, blocks, same, thr):
    """blocks = {(file, fold token of the first run): [(pos, raw, is_target)]} gives the fold membership; in the second run
    every row was scored by the first fold's model: per fold block the returned scores must again be anchored on that
    block's own rows."""
    scores2, events2 = same
    raw2 = {}
    for ev in events2:
        if ev[1] == "predict":
            for rr, v in zip(ev[2].tolist(), ev[3].tolist()):
                raw2[rr] = v
    for (fi, tok), rows in blocks.items():
        pos = np.array([p for p, _, _ in rows])
        tg = np.array([t for _, _, t in rows], dtype=bool)
        rid = [fi * 1_000_000 + int(p) for p in pos]
        if any(r_ not in raw2 for r_ in rid) or not (~tg).any():
            continue
        x = np.array([raw2[r_] for r_ in rid], dtype=float)
        y = np.asarray(scores2[fi], dtype=float).ravel()[pos]
        q = tdc_ref(x.tolist(), tg.tolist(), True)
        _, amb = labels_ref(q, tg.tolist(), thr)
        acc = [i for i in range(len(rows)) if tg[i] and q[i] <= Fraction(thr)]
        if amb or not acc:
            continue
        t0 = min(x[i] for i in acc)
        dmed = float(np.median(x[~tg]))
        if not t0 > dmed:
            continue
        tol = 1e-9 + 16 * np.finfo(float).eps * float(np.max(np.abs(x))) / abs(t0 - dmed)
        y_t0 = min(y[i] for i in acc)
        y_dm = float(np.median(y[~tg]))
        where = f"one pretrained model for all folds, file {fi}, fold block of first-run model {tok}"
        require(abs(y_t0) <= tol, "anchor-zero", f"{where}: lowest accepted target of the fold maps to {y_t0!r}, not 0")
        require(abs(y_dm + 1.0) <= tol, "anchor-minus-one", f"{where}: the fold's decoy median maps to {y_dm!r}, not -1")
        ox = np.argsort(x, kind="stable")
        require(bool(np.all(np.diff(y[ox]) >= 0)), "rank-changed", where)


def check(case):
    same = None
    with scratch_dir() as tmp:
        r = brewlib.run_brew(case, tmp, train_fdr=0.31, capture=True)
        if r["error"] is None and r["models"] is not None and all(m.is_trained for m in r["models"]) and case["rng"] % 3 == 0:
            # history: the data are scored again with ONE already trained model used for every fold (pretrained models may
            # carry equal fold numbers); every fold is still calibrated on its own rows
            try:
                same = brewlib.rescore(case, tmp, r["models"], [0] * case["folds"], capture_events=True)
            except Rejected:
                same = None
    dfs, events = r["dfs"], r["events"]
    logs = recorder.split_log(events)
    thr = case["test_fdr"]
    # final raw outputs per row, grouped by token
    raw = {}
    for tok, d in logs.items():
        for rids, vals in d["final"]:
            for rr, v in zip(rids.tolist(), vals.tolist()):
                raw[rr] = (tok, v)
    err = r["error"]
    total = sum(len(d) for d in dfs)
    if err is not None and "Failed to calibrate" not in err:
        raise Rejected(err)
    # group rows per (file, token)
    blocks = {}
    for fi, df in enumerate(dfs):
        tgt = (df["Label"] == 1).values if df["Label"].dtype != bool else df["Label"].values
        for pos in range(len(df)):
            rid = fi * 1_000_000 + pos
            if rid not in raw:
                continue
            tok, v = raw[rid]
            blocks.setdefault((fi, tok), []).append((pos, v, bool(tgt[pos])))
    # reference decision per block
    empty_blocks, ambiguous = [], False
    ref = {}
    for key, rows in blocks.items():
        vals = [v for _, v, _ in rows]
        tg = [t for _, _, t in rows]
        q = tdc_ref(vals, tg, True)
        _, amb = labels_ref(q, tg, thr)
        if amb:
            ambiguous = True
        acc = [i for i in range(len(rows)) if tg[i] and q[i] <= Fraction(thr)]
        ref[key] = acc
        if not acc:
            empty_blocks.append(key)
    if ambiguous:
        raise Rejected("exact q-value within float32 rounding of test_fdr")
    if err is not None:
        # brew stopped with the explicit calibration error: legitimate iff some scored block accepts nothing
        # (blocks are scored file by file, the error aborts at the first failing file)
        require(len(empty_blocks) > 0, "spurious-calibration-error",
                f"brew raised '{err[:80]}' although every scored fold accepts a target at test_fdr={thr}")
        return {"nontrivial": True, "classes": ["explicit-error"], "counters": {"error_branch": 1}}
    if not all(m.is_trained for m in r["models"]):
        # a fold failed to train: brew hands back zeros / the best feature (C07's subject), nothing is calibrated
        return {"nontrivial": False, "classes": ["untrained"]}
    require(len(raw) == total, "unscored", f"{total - len(raw)} PSMs without final score")
    require(not empty_blocks, "missing-calibration-error",
            f"{len(empty_blocks)} (file, fold) blocks accept no target at test_fdr={thr} but brew returned scores")
    scores = r["scores"]
    models = r["models"]
    if not all(m.is_trained for m in models):
        return {"nontrivial": False, "classes": ["untrained"]}
    classes = [case["est"], f"fdr{thr}", f"folds{case['folds']}"]
    strict_subset = False
    in_domain_blocks = 0
    for (fi, tok), rows in blocks.items():
        pos = np.array([p for p, _, _ in rows])
        x = np.array([v for _, v, _ in rows], dtype=float)
        tg = np.array([t for _, _, t in rows], dtype=bool)
        y = np.asarray(scores[fi], dtype=float).ravel()[pos]
        acc = ref[(fi, tok)]
        t0 = min(x[i] for i in acc)
        dmed = float(np.median(x[~tg])) if (~tg).any() else None
        if dmed is None:
            continue
        if t0 == dmed:
            # lowest accepted target coincides with the decoy median: the documented formula divides by zero;
            # outside the statement's domain (possible only with tied raw outputs)
            classes.append("fold-out-of-domain-zero-span")
            continue
        sx = float(np.std(x))
        if sx == 0:
            continue
        xs = (x - float(np.mean(x))) / sx  # standardised: the raw output may sit on any offset / scale
        A = np.column_stack([xs, np.ones_like(xs)])
        coef, *_ = np.linalg.lstsq(A, y, rcond=None)
        resid = float(np.max(np.abs(A @ coef - y)))
        scale = max(1.0, float(np.max(np.abs(y))))
        require(resid <= 1e-8 * scale * max(1.0, abs(coef[0])), "not-affine",
                f"file {fi} fold-model {tok}: scores are not an affine function of the raw output (resid {resid:.3g})")
        if not t0 > dmed:
            classes.append("fold-out-of-domain")
            continue
        in_domain_blocks += 1
        require(coef[0] > 0, "not-increasing", f"file {fi} fold-model {tok}: slope {coef[0]:.4g}")
        # ranking identical including ties
        ox = np.argsort(x, kind="stable")
        require(bool(np.all(np.diff(y[ox]) >= 0)), "rank-changed", f"file {fi} fold-model {tok}")
        ties_x = np.diff(x[ox]) == 0
        require(bool(np.all((np.diff(y[ox]) == 0)[ties_x])), "ties-broken", f"file {fi} fold-model {tok}")
        y_t0 = min(y[i] for i in acc)
        y_dm = float(np.median(y[~tg]))
        # rounding of the raw output itself, carried through the division by (t0 - dm)
        tol = 1e-9 + 16 * np.finfo(float).eps * float(np.max(np.abs(x))) / abs(t0 - dmed)
        require(abs(y_t0) <= tol, "anchor-zero",
                f"file {fi} fold-model {tok}: lowest accepted target maps to {y_t0!r}, not 0 (accepted {len(acc)})")
        require(abs(y_dm + 1.0) <= tol, "anchor-minus-one",
                f"file {fi} fold-model {tok}: decoy median maps to {y_dm!r}, not -1")
        if len(acc) < int(tg.sum()):
            strict_subset = True
        qx = tdc_ref(x.tolist(), tg.tolist(), True)
        if any(qx[i] == Fraction(thr) for i in acc):
            classes.append("accepted-target-exactly-at-threshold")
        if any((x == t0) & ~tg):
            classes.append("decoy-tied-with-lowest-accepted-target")
    if same is not None:
        _check_same_model(case, dfs, blocks, same, thr)
        classes.append("one-pretrained-model-for-all-folds")
    if len(dfs) > 1:
        classes.append("multi-file")
    nontrivial = (case["folds"] >= 3 or len(dfs) >= 2) and strict_subset and in_domain_blocks == len(blocks)
    return {"nontrivial": nontrivial, "classes": sorted(set(classes)),
            "counters": {"blocks_checked": len(blocks), "blocks_in_domain": in_domain_blocks}}
