"""C12 - training feeds the estimator rows and labels of the same PSM, in any order."""

from __future__ import annotations

import uuid

import core
from fractions import Fraction

import numpy as np
import pandas as pd
from hypothesis import strategies as st

import datagen
import recorder
from core import Rejected, guarded, require, scratch_dir
from refs import labels_ref, tdc_ref

ID = "C12"
LEVEL = "exploration"
TECHNIQUE = (
    "Hypothesis-generated in-memory datasets x row permutations x shuffle switch x iteration counts x estimator "
    "interfaces with a recording, order-insensitive estimator; oracle = per-fit-call (row id, label) check against "
    "reference labels, permutation metamorphic relations on a probe set, save/load round trip"
)
RULE = (
    "case = (150-700 rows, spectrum multiplicities, noise features, data seed, row permutation seed, max_iter 1-10, "
    "estimator interface decision_function / predict_proba (n,2) / predict_proba (n,1), optional GridSearchCV wrapper, optional explicit direction, train_fdr, feature-column "
    "permutation of the prediction set, optional duplicated rows producing score ties, optionally two feature names that differ only in letter case). Each case trains 7 times "
    "(identity/permuted rows x shuffle on/off, permuted rows keeping their index labels with 1/0 integer labels, explicit "
    "feature list in another order than the table, a dataset object that was fitted before at a neighbouring training FDR). Non-trivial: max_iter>=2 and the row permutation is not the identity. "
    "Distinct = distinct canonical JSON."
)
ASSUMPTIONS = [
    "the estimator is a closed-form centroid discriminant with exactly rounded sums, so any dependence on row order "
    "beyond 1e-8 comes from mokapot's bookkeeping",
    "targets whose exact q-value lies within float32 rounding of train_fdr may carry either label",
    "row identity is carried by the last feature column; models use scaler='as-is'",
]
FDRS = (0.0731, 0.1279, 0.2113)


def budget(tier):
    if tier == "quick":
        return {"examples": 960, "shards": 16, "time_s": 60}
    return {"examples": 51200, "shards": 16, "time_s": 1500}


@st.composite
def _case(draw, tier):
    ns = draw(st.integers(150, 350 if tier == "quick" else 700))
    return {
        "seed": draw(st.integers(0, 2**31 - 1)),
        "mults": datagen.draw_mults(draw, st, (ns, ns), 2),
        "n_noise": draw(st.integers(1, 3)),
        "perm": draw(st.integers(1, 2**31 - 1)),
        "max_iter": draw(st.sampled_from([1, 2, 2, 3, 4, 5, 10])),
        "iface": draw(st.sampled_from(["df", "df", "proba2", "proba1"])),
        "fdr": draw(st.sampled_from(FDRS)),
        "model_rng": draw(st.integers(0, 10**6)),
        "colperm": draw(st.integers(0, 2**16)),
        "discrete": draw(st.sampled_from([False, False, True])),
        "direction": draw(st.sampled_from([None, None, None, "f0", "f0", "f1"])),
        "search": draw(st.sampled_from([False, False, True])),
        # feature names that differ only in letter case (Sp / SP), as search engines do produce them
        "casenames": draw(st.sampled_from([False, False, True])),
    }


def strategy(tier):
    return _case(tier)


def _accepted_set(vals, tg, thr, desc=True):
    q = tdc_ref([float(v) for v in vals], [bool(t) for t in tg], desc)
    lab, amb = labels_ref(q, tg, thr)
    return {i for i, l in enumerate(lab) if l == 1}, amb


def _train(case, df, meta, order, shuffle, probe, probe2, tmp, tag, keep_index=False, int_labels=False, featlist=None, prefit_fdr=None):
    import mokapot

    feats = featlist or meta["features"]
    d = df.iloc[order]
    if not keep_index:
        d = d.reset_index(drop=True)  # otherwise the frame keeps its permuted index labels, as df.iloc[perm] / sort_values give
    if int_labels:
        d = d.assign(Label=d["Label"].astype(int))  # 1/0 integers: documented to be coerced to booleans
    ds = mokapot.LinearPsmDataset(d, target_column="Label", spectrum_columns=meta["key_cols"], peptide_column="Peptide",
                                  protein_column="Proteins", feature_columns=feats, copy_data=True)
    pre = pre_pred = None
    logname = "c12_" + uuid.uuid4().hex
    recorder.new_log(logname)
    shared_est = recorder.Centroid(log=logname, iface=case["iface"])
    if prefit_fdr is not None:
        # history: the same dataset object was fitted before at a neighbouring threshold (a threshold sweep), by a model
        # built from the very estimator instance the observed model is built from (Model keeps its own clone)
        pre = mokapot.Model(shared_est, scaler="as-is", train_fdr=prefit_fdr, max_iter=1,
                            override=True, shuffle=shuffle, rng=case["model_rng"] + 1, direction=case.get("direction"))
        try:
            guarded(pre.fit, ds, allowed=[(RuntimeError, "No PSMs accepted at train_fdr|No PSMs found below|Model performs worse")], sig="Model.fit")
            pre_pred = np.asarray(guarded(pre.predict, probe, sig="Model.predict"), dtype=float)
        except Rejected:
            pre = None
        recorder.drop_log(logname)
        recorder.new_log(logname)
    try:
        est = shared_est
        if case.get("search"):
            # hyper-parameter search wrapper, as PercolatorModel uses: the search fits clones on row subsets first
            from sklearn.model_selection import GridSearchCV, KFold

            est = GridSearchCV(est, param_grid={"w": [1.0, 2.0]}, refit=False, cv=KFold(3, shuffle=True, random_state=1))
        model = mokapot.Model(est, scaler="as-is", train_fdr=case["fdr"], max_iter=case["max_iter"], override=True,
                              shuffle=shuffle, rng=case["model_rng"], direction=case.get("direction"))
        guarded(model.fit, ds, allowed=[(RuntimeError, "No PSMs accepted at train_fdr|No PSMs found below|Model performs worse")],
                sig="Model.fit")
        events = list(recorder.LOGS[logname])
        n_fit_events = len(events)
        p1 = np.asarray(guarded(model.predict, probe, sig="Model.predict"), dtype=float)
        p2 = np.asarray(guarded(model.predict, probe2, sig="Model.predict"), dtype=float)
        p1b = np.asarray(guarded(model.predict, probe, sig="Model.predict"), dtype=float)
        # history: one file name for every model of this process, and another (unfitted) model was saved to and loaded
        # from it just before - the loaded model must be the one that was saved last
        shared = core.scratch_root() / "c12_shared"
        shared.mkdir(exist_ok=True)
        path = shared / "model.pkl"
        guarded(mokapot.Model(recorder.Centroid(log=logname, iface=case["iface"]), scaler="as-is").save, path, sig="Model.save")
        guarded(mokapot.load_model, path, sig="load_model")
        guarded(model.save, path, sig="Model.save")
        loaded = guarded(mokapot.load_model, path, sig="load_model")
        p3 = np.asarray(guarded(loaded.predict, probe, sig="Model.predict"), dtype=float)
        p4 = np.asarray(guarded(loaded.predict, probe2, sig="Model.predict"), dtype=float)
        if pre is not None and pre_pred is not None:
            again = np.asarray(guarded(pre.predict, probe, sig="Model.predict"), dtype=float)
            require(np.array_equal(again, pre_pred), "model-changed-by-other-fit",
                    f"{tag}: a fitted model predicts differently (max diff {float(np.max(np.abs(again - pre_pred))):.3g}) after another "
                    f"model built from the same estimator instance was fitted")
    finally:
        recorder.drop_log(logname)
    return events[:n_fit_events], (p1, p2, p1b, p3, p4), model


def check(case):
    import mokapot

    if case.get("kind") == "large-collection":
        n = _big_case(case["seed"], case["n_spectra"], case["order"])
        return {"nontrivial": True, "classes": ["large-collection-" + case["order"]], "counters": {"large_collection_rows": n}}

    df, meta = datagen.psm_frame(case["seed"], case["mults"], key_arity=2, n_noise=case["n_noise"], sep=3.0, with_rid=True,
                                 label_enc="bool")
    if case["discrete"]:
        for c in meta["features"]:
            if c != "rid":
                df[c] = df[c].round(0)
    if case.get("casenames"):
        ren = {"f0": "Sp", "f1": "SP"}
        df = df.rename(columns=ren)
        meta = {**meta, "features": [ren.get(f, f) for f in meta["features"]]}
        case = {**case, "direction": ren.get(case.get("direction"), case.get("direction"))}
    n = len(df)
    tg = meta["is_target"]
    feats = meta["features"]
    thr = case["fdr"]
    rng = np.random.default_rng(case["perm"])
    perm = rng.permutation(n)
    ident = np.arange(n)
    # probe sets: first rows in canonical order; second with permuted feature columns
    pdf = df.iloc[: min(60, n)].reset_index(drop=True)
    probe = mokapot.LinearPsmDataset(pdf, "Label", meta["key_cols"], "Peptide", "Proteins", feature_columns=feats,
                                     enforce_checks=False)
    crng = np.random.default_rng(case["colperm"])
    other = [c for c in pdf.columns]
    feat_perm = list(crng.permutation(feats))
    cols2 = [c for c in other if c not in feats] + feat_perm
    probe2 = mokapot.LinearPsmDataset(pdf[cols2], "Label", meta["key_cols"], "Peptide", "Proteins", feature_columns=feat_perm,
                                      enforce_checks=False)
    results = {}
    failed = {}
    trained = {}
    ens_done = False
    counters = {"fit_calls_checked": 0}
    with scratch_dir() as tmp:
        frng = np.random.default_rng(case["colperm"] + 1)
        featlist = [str(x) for x in frng.permutation([f for f in feats if f != "rid"])] + ["rid"]  # explicit list in another order than the table
        variants = (("id-shuf", ident, True, {}), ("perm-shuf", perm, True, {}), ("id-noshuf", ident, False, {}),
                    ("perm-noshuf", perm, False, {}),
                    ("perm-index-kept-int-labels", perm, True, {"keep_index": True, "int_labels": True}),
                    ("feature-list-permuted", ident, True, {"featlist": featlist}),
                    ("refit-same-dataset", ident, True, {"prefit_fdr": round(thr, 2) + (0.004 if round(thr, 2) < thr else -0.004)}))
        for tag, order, shuffle, opts in variants:
            try:
                events, preds, model = _train(case, df, meta, order, shuffle, probe, probe2, tmp, tag, **opts)
            except Rejected as r:
                failed[tag] = str(r)
                continue
            # ---- every fit call: rows and labels belong to the same PSM ----------------
            prev_out = None  # rid -> output of the previous iteration
            it = 0
            main_tok = getattr(model.estimator, "token_", None)
            for tok, kind, rids, vals in events:
                if tok != main_tok:
                    # clones fitted by the hyper-parameter search on subsets: rows and labels must still belong together
                    if kind == "fit":
                        for r, yy in zip(rids.tolist(), vals.tolist()):
                            require((yy == 0) == (not tg[r]), "label-misaligned",
                                    f"{tag} hyper-parameter search: row {r} is a {'target' if tg[r] else 'decoy'} but is fed with label {yy}")
                        counters["search_fits_checked"] = counters.get("search_fits_checked", 0) + 1
                    continue
                if kind == "predict":
                    require(len(rids) == n and len(set(rids.tolist())) == n, "predict-rows", f"{tag}: training-time scoring saw {len(rids)} rows of {n}")
                    prev_out = dict(zip(rids.tolist(), vals.tolist()))
                    continue
                if kind != "fit":
                    continue
                y = vals
                rl = rids.tolist()
                require(len(set(rl)) == len(rl), "fit-duplicate-rows", f"{tag} iteration {it}")
                for r, yy in zip(rl, y.tolist()):
                    require((yy == 0) == (not tg[r]), "label-misaligned",
                            f"{tag} iteration {it}: row {r} is a {'target' if tg[r] else 'decoy'} but is fed with label {yy}")
                negs = {r for r, yy in zip(rl, y.tolist()) if yy == 0}
                require(negs == {i for i in range(n) if not tg[i]}, "negatives", f"{tag} iteration {it}: negatives are not exactly the decoys")
                pos = {r for r, yy in zip(rl, y.tolist()) if yy == 1}
                if it == 0 or prev_out is None:
                    ok = False
                    best = 0
                    cands = []
                    for f in ([case["direction"]] if case.get("direction") else feats):
                        for dsc in (True, False):
                            acc, amb = _accepted_set(df[f].values, tg, thr, dsc)
                            cands.append((len(acc), acc, amb))
                            best = max(best, len(acc))
                    for cnt, acc, amb in cands:
                        if cnt >= best - len(amb) and (pos - amb) == (acc - amb):
                            ok = True
                    require(ok, "initial-positives", f"{tag}: the positives of iteration 0 ({len(pos)}) are not the targets accepted by any best feature (best count {best})")
                else:
                    vals_prev = [prev_out[i] for i in range(n)]
                    acc, amb = _accepted_set(vals_prev, tg, thr, True)
                    require((pos - amb) == (acc - amb), "positives",
                            f"{tag} iteration {it}: {len(pos)} positives, but {len(acc)} targets are accepted at FDR {thr} under the "
                            f"current scores (missing {sorted(acc - pos - amb)[:3]}, extra {sorted(pos - acc - amb)[:3]})")
                it += 1
                counters["fit_calls_checked"] += 1
            require(it == case["max_iter"], "fit-count",
                    f"{tag}: the estimator was fitted {it} times for max_iter={case['max_iter']} (every iteration re-labels and re-fits)")
            results[tag] = preds
            trained[tag] = model
        # ---- ensemble rescoring with trained models that store their features in different orders: the average over the
        # models does not depend on the order in which they are listed (each model finds its features by name)
        if "id-shuf" in trained and "feature-list-permuted" in trained and case["perm"] % 3 == 0:
            import brewlib

            path = tmp / "ens.parquet"
            datagen.write_table(df, path)
            outs = []
            try:
                import copy

                for pair in (("id-shuf", "feature-list-permuted"), ("feature-list-permuted", "id-shuf")):
                    ms = [copy.copy(trained[t_]) for t_ in pair]
                    for k_, m_ in enumerate(ms):
                        m_.fold = k_ + 1  # as the fold models returned by brew / re-loaded by the command line carry it
                    ds = datagen.build_ondisk(path, df, meta)
                    res = guarded(mokapot.brew, [ds], ms, test_fdr=max(thr, 0.2), folds=2, max_workers=1, rng=7, ensemble=True,
                                  allowed=brewlib.ALLOWED_BREW, sig="brew-ensemble")
                    outs.append(np.asarray(res[2][0], dtype=float))
            except Rejected:
                outs = []
            if len(outs) == 2:
                ens_done = True
                sc_ = max(1.0, float(np.max(np.abs(outs[0]))))
                require(outs[0].shape == outs[1].shape and bool(np.allclose(outs[0], outs[1], rtol=0, atol=1e-9 * sc_)), "ensemble-feature-position",
                        f"ensemble rescoring with two trained models (features stored as {list(trained['id-shuf'].features)[:4]}... and "
                        f"{list(trained['feature-list-permuted'].features)[:4]}...) gives other scores when the models are listed in the "
                        f"other order (max diff {float(np.max(np.abs(outs[0] - outs[1]))):.3g})")
    if failed and any("No PSMs accepted at train_fdr" in m or "No PSMs found below" in m for m in failed.values()):
        # the rejection claims that no target is accepted at the training FDR under the initial direction: verify
        best = 0
        for f in ([case["direction"]] if case.get("direction") else feats):
            for dsc in (True, False):
                acc, amb = _accepted_set(df[f].values, tg, thr, dsc)
                best = max(best, len(acc - amb))
        require(best == 0, "spurious-no-psms-accepted",
                f"training stops with '{next(iter(failed.values()))[:70]}' although {best} targets are accepted at FDR {thr} "
                f"under {'feature ' + case['direction'] if case.get('direction') else 'the best feature'}")
    if failed:
        require(len(failed) == 7, "training-outcome-differs",
                f"training succeeds for {sorted(results)} but fails for {failed}: the outcome depends on row order / the shuffle switch")
        raise Rejected(next(iter(failed.values())))
    # ---- metamorphic relations on the probe set -------------------------------------------
    base = results["id-shuf"][0]
    scale = max(1.0, float(np.max(np.abs(base))))
    for tag, (p1, p2, p1b, p3, p4) in results.items():
        require(p1.shape == base.shape and bool(np.all(np.isfinite(p1))), "predict-shape", tag)
        require(bool(np.allclose(p1, base, rtol=0, atol=1e-8 * scale)), "order-dependence",
                f"predictions of the model trained as {tag} differ from id-shuf by {float(np.max(np.abs(p1 - base))):.3g}")
        require(bool(np.allclose(p2, p1, rtol=0, atol=1e-12 * scale)), "feature-position",
                f"{tag}: predictions change by {float(np.max(np.abs(p2 - p1))):.3g} when the feature columns are permuted")
        require(np.array_equal(p1b, p1), "predict-history", f"{tag}: predicting again on the first layout gives different scores")
        require(np.array_equal(p3, p1), "save-load", f"{tag}: re-loaded model predicts differently (max diff {float(np.max(np.abs(p3 - p1))):.3g})")
        require(bool(np.allclose(p4, p1, rtol=0, atol=1e-12 * scale)), "save-load-feature-position",
                f"{tag}: re-loaded model on permuted columns differs by {float(np.max(np.abs(p4 - p1))):.3g}")
    classes = [case["iface"], f"iter{case['max_iter']}"]
    if case["discrete"]:
        classes.append("discrete-features(ties)")
    if case.get("direction"):
        classes.append("explicit-direction")
    if case.get("search"):
        classes.append("hyper-parameter-search")
    if feat_perm != feats:
        classes.append("features-permuted")
    if case.get("casenames"):
        classes.append("feature-names-differ-in-case-only")
    if ens_done:
        classes.append("ensemble-of-models-with-different-feature-orders")
    nontrivial = case["max_iter"] >= 2 and not np.array_equal(perm, ident)
    return {"nontrivial": nontrivial, "classes": classes, "counters": counters}


# ---------------------------------------------------------------------------
def _big_case(seed, n_spectra, order_kind):
    """One collection beyond 100 000 PSMs, default (data-learning) scaler: the model must not depend on the row order."""
    import mokapot

    rng = np.random.default_rng(seed)
    mults = [int(x) for x in rng.integers(1, 3, size=n_spectra)]
    df, meta = datagen.psm_frame(seed, mults, key_arity=2, n_noise=2, sep=3.0, with_rid=True, label_enc="bool")
    feats = meta["features"]
    n = len(df)
    tg = np.asarray(meta["is_target"], dtype=bool)
    orders = {"targets-first": np.argsort(~tg, kind="stable"), "by-feature": np.argsort(-df[feats[0]].to_numpy(), kind="stable"),
              "permuted": rng.permutation(n)}
    pdf = df.iloc[:200].reset_index(drop=True)
    probe = mokapot.LinearPsmDataset(pdf, "Label", meta["key_cols"], "Peptide", "Proteins", feature_columns=feats, enforce_checks=False)
    preds = {}
    for tag in ("permuted", order_kind):
        d = df.iloc[orders[tag]].reset_index(drop=True)
        ds = mokapot.LinearPsmDataset(d, target_column="Label", spectrum_columns=meta["key_cols"], peptide_column="Peptide",
                                      protein_column="Proteins", feature_columns=feats, copy_data=True)
        logname = "c12big_" + uuid.uuid4().hex
        recorder.new_log(logname)
        try:
            model = mokapot.Model(recorder.Centroid(log=logname, iface="df"), train_fdr=0.05, max_iter=2, override=True, rng=seed % 1000)
            guarded(model.fit, ds, sig="Model.fit")
            preds[tag] = np.asarray(guarded(model.predict, probe, sig="Model.predict"), dtype=float)
        finally:
            recorder.drop_log(logname)
    a, b = preds["permuted"], preds[order_kind]
    scale = float(np.std(a)) or 1.0
    require(bool(np.allclose(a, b, rtol=0, atol=1e-7 * scale)), "order-dependence-large-collection",
            f"{n} PSMs, default scaler: predictions of the model trained on the rows in order '{order_kind}' differ from those of the "
            f"model trained on permuted rows by {float(np.max(np.abs(a - b))) / scale:.3g} score standard deviations")
    return n


def extra(tier, seed, shard, nshards, stats):
    """Large collections (size thresholds in the training path): a few per run, one per shard at most."""
    todo = {"quick": 2, "thorough": 16}[tier]
    if shard >= todo:
        return
    rnd = np.random.default_rng(seed * 7919 + shard)
    n_spectra = int(rnd.integers(70_000, 95_000))  # x ~1.5 PSMs per spectrum: 105 000 - 143 000 rows
    kind = ["targets-first", "by-feature"][shard % 2]
    case = {"kind": "large-collection", "seed": int(rnd.integers(0, 2**31 - 1)), "n_spectra": n_spectra, "order": kind}
    try:
        n = _big_case(case["seed"], n_spectra, kind)
    except core.Violation as v:
        stats.failure = {"case": case, "signature": v.signature, "message": v.message}
        return
    stats.evaluations += 1
    stats.counters["large_collection_rows"] += n
    stats.observe(case, {"nontrivial": True, "classes": ["large-collection-" + kind]})
