"""C13 - chunked table reading equals whole reading; writers lose and reorder nothing."""

from __future__ import annotations

import math
from pathlib import Path

import numpy as np
import pandas as pd
from hypothesis import strategies as st

from core import Rejected, Violation, case_hash, guarded, require, scratch_dir

ID = "C13"
LEVEL = "exploration"
TECHNIQUE = (
    "Hypothesis-generated tables x reader kinds x chunk sizes x column subsets against the generator's table model "
    "(chunk-concat = whole = model), and a Hypothesis rule-based state machine of writer append histories "
    "(text/Parquet x buffer sizes x buffer kinds) against a list-of-rows model"
)
RULE = (
    "reader case = (0-60 rows, 1-8 columns of kind int/float/bool/safe-string, reader kind tsv/parquet(row group)/"
    "dataframe/renamed/joined(2-3 children of mixed kinds)/computed, chunk size 1..n+1, requested column subset+order "
    "or all; an in-memory frame may carry a filtered / sliced / reversed index; text inputs may print whole-valued floats without a decimal point); non-trivial: >=2 chunks with a short last chunk. Writer history = initialize, appends of 0-7 rows as "
    "frame/dict(s)/record (unbuffered writers also get frames whose columns come in another order: refused or stored by name), finalize, read back through the writer's associated reader (text with separator tab , ; | / Parquet x buffer size 0,2..9 x buffer kind); non-trivial: >=2 "
    "appends of which one crosses a buffer boundary while rows are pending. Distinct = distinct canonical JSON."
)
ASSUMPTIONS = [
    "strings avoid tab/newline, pandas NA tokens and number/boolean look-alikes, so that unchanged values is a fair "
    "demand of a text format",
    "floats read from text files are compared with rtol 1e-12 against the model (pandas' default float parser is "
    "not round-trip exact); whole vs chunked reading of the same file, Parquet and in-memory frames are bit-exact",
    "argument combinations rejected identically by whole and chunked reading (columns=None on the computed-column "
    "reader) are counted as rejected",
]

KINDS = ["int", "float", "bool", "str"]
WRITER_KINDS = KINDS + ["mixed"]  # mixed: numeric column whose integral batches arrive with an integer dtype (per-chunk inference)
SAFE = ["alpha", "b_eta", "Gamma-3", "x9y", "pep|A", "K.PEPT[+16]IDE.R", "sp|P1|X_HUMAN", "z z", "q;r", "mokapot"]
HARD_FLOATS = [0.1, 1e-5, 0.005311234567890123, 123456.789, -2.5e-7, 1e22, 3.0, -0.0, 5e-324, 1.7976931348623157e308, 0.3333333333333333]


def budget(tier):
    if tier == "quick":
        return {"examples": 4800, "shards": 16, "time_s": 60}
    return {"examples": 192000, "shards": 16, "time_s": 1500}


def _values(draw, kind, n):
    if kind == "int":
        return draw(st.lists(st.integers(-10**6, 10**6), min_size=n, max_size=n))
    if kind == "float":
        # whole values are frequent: a text file may print them without a decimal point (see "compact")
        return draw(st.lists(st.one_of(st.sampled_from(HARD_FLOATS), st.floats(allow_nan=False, allow_infinity=False, width=64),
                                       st.integers(-2000, 2000).map(float)),
                             min_size=n, max_size=n))
    if kind == "bool":
        return draw(st.lists(st.booleans(), min_size=n, max_size=n))
    return draw(st.lists(st.sampled_from(SAFE), min_size=n, max_size=n))


@st.composite
def _reader_case(draw, tier):
    n = draw(st.integers(0, 60 if tier != "quick" else 30))
    ncol = draw(st.integers(1, 8))
    cols = []
    for i in range(ncol):
        k = draw(st.sampled_from(KINDS))
        cols.append({"name": f"c{i}_{k}", "kind": k, "values": _values(draw, k, n)})
    rk = draw(st.sampled_from(["tsv", "parquet", "dataframe", "renamed", "joined", "joined", "computed"]))
    child_kinds = [draw(st.sampled_from(["tsv", "parquet", "dataframe"])) for _ in range(3)]
    splits = sorted(draw(st.lists(st.integers(1, max(1, ncol - 1)), max_size=2, unique=True))) if ncol > 1 else []
    allcols = draw(st.booleans())
    names = [c["name"] for c in cols] + (["comp"] if rk == "computed" else [])
    sub = None if allcols else draw(st.lists(st.sampled_from(names), min_size=1, max_size=len(names), unique=True))
    return {
        "kind": "reader",
        "n": n,
        "cols": cols,
        "reader": rk,
        "base": draw(st.sampled_from(["tsv", "parquet", "dataframe"])),
        "child_kinds": child_kinds,
        "splits": splits,
        "row_group": draw(st.sampled_from([None, 1, 2, 3, 7, 16])),
        "chunk": draw(st.integers(1, n + 1)),
        "columns": sub,
        "rename": draw(st.lists(st.integers(0, ncol - 1), unique=True, max_size=ncol)),
        "rename_kind": draw(st.sampled_from(["suffix", "suffix", "swap", "chain"])),
        # an in-memory frame handed to DataFrameReader need not carry the default index (filtered / sliced / re-ordered frame)
        "df_index": draw(st.sampled_from([None, None, "filtered", "sliced", "reversed"])),
        # separators of the delimited-text inputs (children of a joined reader may differ)
        "seps": [draw(st.sampled_from(["\t", "\t", ","])) for _ in range(3)],
        # text inputs print whole-valued floats without a decimal point (1250 rather than 1250.0), as many tools do
        "compact": draw(st.booleans()),
    }


def strategy(tier):
    return _reader_case(tier)


# ---------------------------------------------------------------------------
def _frame(cols, n):
    data = {}
    for c in cols:
        if c["kind"] == "int":
            data[c["name"]] = np.array(c["values"], dtype=np.int64)
        elif c["kind"] == "float":
            data[c["name"]] = np.array(c["values"], dtype=np.float64)
        elif c["kind"] == "bool":
            data[c["name"]] = np.array(c["values"], dtype=bool)
        else:
            data[c["name"]] = np.array(c["values"], dtype=object)
    return pd.DataFrame(data, index=pd.RangeIndex(n))


def _make_reader(kind, df, path_stem, row_group, sep="\t"):
    from mokapot import tabular_data as td

    if kind == "dataframe":
        return td.DataFrameReader(df.copy()), "mem"
    if kind == "parquet":
        import pyarrow as pa
        import pyarrow.parquet as pq

        p = Path(str(path_stem) + ".parquet")
        pq.write_table(pa.table({"zz_old": [1, 2, 3]}), p)  # history: another table lived at this path
        _old = td.TabularDataReader.from_path(p)
        _old.get_column_names(), _old.read()
        pq.write_table(pa.Table.from_pandas(df, preserve_index=False), p, row_group_size=row_group or max(1, len(df)))
        return td.TabularDataReader.from_path(p), "parquet"
    p = Path(str(path_stem) + ".tab")
    p.write_text("zz_old\n1\n2\n3\n")  # history: another table lived at this path
    _old = td.TabularDataReader.from_path(p)
    _old.get_column_names(), _old.read()
    with open(p, "w") as f:
        f.write(sep.join(df.columns) + "\n")
        for i in range(len(df)):
            f.write(sep.join(_fmt(df[c].iat[i]) for c in df.columns) + "\n")
    reader = td.TabularDataReader.from_path(p) if sep == "\t" else td.TabularDataReader.from_path(p, sep=sep)
    # another delimited-text reader with a separator of its own is created (and used) while this one is alive
    q = Path(str(path_stem) + "_other.csv")
    q.write_text("a;b\n1;2\n")
    td.CSVFileReader(q, sep=";").get_column_names()
    return reader, "text"


_COMPACT = [False]


def _fmt(v):
    if isinstance(v, (bool, np.bool_)):
        return "True" if v else "False"
    if isinstance(v, (float, np.floating)):
        v = float(v)
        if _COMPACT[0] and v.is_integer() and abs(v) < 1e15 and not (v == 0 and math.copysign(1, v) < 0):
            return str(int(v))
        return repr(float(v))
    return str(v)


def _cmp_col(got, want, kind, exact, tag):
    require(len(got) == len(want), "row-count", f"{tag}: {len(got)} rows, expected {len(want)}")
    gl = list(got)
    for i, (g, w) in enumerate(zip(gl, want)):
        if kind == "float":
            g = float(g)
            if exact:
                ok = (g == w) or (math.isnan(g) and math.isnan(w))
                ok = ok and (math.copysign(1, g) == math.copysign(1, w) or g != 0)
            else:
                ok = abs(g - w) <= 1e-12 * max(abs(g), abs(w)) or g == w
            require(ok, "value-changed", f"{tag} row {i}: {g!r} != {w!r}")
        elif kind == "int":
            require(int(g) == int(w), "value-changed", f"{tag} row {i}: {g!r} != {w!r}")
        elif kind == "bool":
            require(isinstance(g, (bool, np.bool_)) and bool(g) == bool(w), "value-changed", f"{tag} row {i}: {g!r} != {w!r}")
        else:
            require(str(g) == str(w), "value-changed", f"{tag} row {i}: {g!r} != {w!r}")


def _rename_map(case):
    """old -> new names; 'swap' and 'chain' maps are not idempotent (applying them twice gives other names)."""
    names = [c["name"] for c in case["cols"]]
    kind = case.get("rename_kind", "suffix")
    if kind == "swap" and len(names) >= 2:
        return {names[0]: names[1], names[1]: names[0]}
    if kind == "chain" and len(names) >= 2:
        return {names[0]: "old_" + names[0], names[1]: names[0]}
    return {names[i]: names[i] + "_new" for i in case["rename"]}


def _check_reader(case):
    from mokapot import streaming as stm
    from mokapot import tabular_data as td

    n = case["n"]
    cols = case["cols"]
    df = _frame(cols, n)
    kinds = {c["name"]: c["kind"] for c in cols}
    model = {c["name"]: c["values"] for c in cols}
    _COMPACT[0] = bool(case.get("compact"))
    with scratch_dir() as tmp:
        rk = case["reader"]
        seps = case.get("seps") or ["\t"] * 3
        text_cols = set()
        labels = list(range(n))
        if rk == "dataframe" and case.get("df_index"):
            labels = {"filtered": [2 * i + (i % 3) for i in range(n)], "sliced": [i + 10 for i in range(n)],
                      "reversed": list(range(n - 1, -1, -1))}[case["df_index"]]
            df.index = pd.Index(labels, dtype=np.int64)
        if rk in ("tsv", "parquet", "dataframe"):
            reader, src = _make_reader(rk, df, tmp / "t", case["row_group"], seps[0])
            if src == "text":
                text_cols = set(df.columns)
        elif rk == "renamed":
            base, src = _make_reader(case["base"], df, tmp / "t", case["row_group"], seps[0])
            cmap = _rename_map(case)
            reader = td.ColumnMappedReader(base, cmap)
            kinds = {cmap.get(k, k): v for k, v in kinds.items()}
            model = {cmap.get(k, k): v for k, v in model.items()}
            if src == "text":
                text_cols = set(kinds)
        elif rk == "joined":
            bounds = [0] + case["splits"] + [len(cols)]
            children = []
            for gi, (a, b) in enumerate(zip(bounds, bounds[1:])):
                names = [c["name"] for c in cols[a:b]]
                child, src = _make_reader(case["child_kinds"][gi % 3], df[names], tmp / f"j{gi}", case["row_group"], seps[gi % 3])
                children.append(child)
                if src == "text":
                    text_cols |= set(names)
            reader = stm.JoinedTabularDataReader(children)
        else:  # computed
            base, src = _make_reader(case["base"], df, tmp / "t", case["row_group"], seps[0])
            reader = stm.ComputedTabularDataReader(base, "comp", np.dtype("int64"), lambda d: np.asarray(d.index, dtype=np.int64) * 2 + 1)
            kinds = {**kinds, "comp": "int"}
            model = {**model, "comp": [2 * i + 1 for i in range(n)]}
            if src == "text":
                text_cols = set(df.columns)
        all_names = list(kinds)
        got_names = guarded(reader.get_column_names, sig="get_column_names")
        require(got_names == all_names, "column-names", f"{got_names} != {all_names}")
        columns = case["columns"]
        if columns is not None and rk == "renamed":
            cm = _rename_map(case)
            columns = [cm.get(c, c) for c in columns]
        want_cols = all_names if columns is None else columns
        # ---- whole ----
        whole_err = chunk_err = None
        try:
            whole = guarded(reader.read, columns=columns, sig="read")
        except Violation as v:
            whole_err = v
        try:
            chunks = list(guarded(lambda: list(reader.get_chunked_data_iterator(chunk_size=case["chunk"], columns=columns)), sig="chunked"))
        except Violation as v:
            chunk_err = v
        if whole_err or chunk_err:
            if whole_err and chunk_err and whole_err.signature.split("@")[0].split(":")[1] == chunk_err.signature.split("@")[0].split(":")[1] \
                    and columns is None and rk == "computed":
                raise Rejected("computed-column reader rejects columns=None in both modes")
            raise whole_err or chunk_err
        require(list(whole.columns) == want_cols, "column-order", f"whole read: columns {list(whole.columns)} != requested {want_cols}")
        require(len(whole) == n, "row-count", f"whole read: {len(whole)} rows for {n}")
        require(list(whole.index) == labels, "index", "whole read: index is not 0..n-1 (the frame's own labels for an in-memory frame)")
        for c in want_cols:
            _cmp_col(whole[c].tolist(), model[c], kinds[c], c not in text_cols, f"whole[{c}]")
        # ---- chunked ----
        sizes = [len(ch) for ch in chunks]
        exp_sizes = [case["chunk"]] * (n // case["chunk"]) + ([n % case["chunk"]] if n % case["chunk"] else [])
        # the property asks for chunk-concat = whole; a reader may deliver shorter chunks (e.g. at row-group boundaries),
        # but not more rows than requested per chunk and not another total
        require(sum(sizes) == n, "row-count", f"chunks hold {sum(sizes)} rows in total ({sizes}) for a table of {n} (chunk={case['chunk']})")
        require(all(sz <= case["chunk"] for sz in sizes), "chunk-too-large", f"chunk sizes {sizes} exceed the requested {case['chunk']}")
        pos = 0
        for k, ch in enumerate(chunks):
            require(list(ch.columns) == want_cols, "column-order", f"chunk {k}: columns {list(ch.columns)} != requested {want_cols}")
            require(list(ch.index) == labels[pos:pos + len(ch)], "index",
                    f"chunk {k}: index {list(ch.index)[:3]}.. does not continue at {pos}")
            pos += len(ch)
        if n > 0:
            cat = pd.concat(chunks)
            for c in want_cols:
                _cmp_col(cat[c].tolist(), whole[c].tolist(), kinds[c], True, f"chunks-vs-whole[{c}]")
        # history: reading everything (no column list) and then the same request again must give the same table
        try:
            guarded(reader.read, sig="read")
        except Violation:
            pass  # the computed-column reader rejects columns=None by design
        again = guarded(reader.read, columns=columns, sig="read")
        require(list(again.columns) == want_cols and len(again) == n, "reread-differs",
                f"second whole read: columns {list(again.columns)} / {len(again)} rows, first read {want_cols} / {n} rows")
        for c in want_cols:
            _cmp_col(again[c].tolist(), whole[c].tolist(), kinds[c], True, f"reread[{c}]")
    classes = [rk]
    if rk == "dataframe" and case.get("df_index"):
        classes.append("frame-with-own-index")
    nchunks = len(exp_sizes)
    if columns is not None:
        classes.append("column-subset")
    if rk == "parquet" and case["row_group"] and case["row_group"] < n:
        classes.append("multi-row-group")
    short_last = nchunks >= 2 and exp_sizes[-1] < case["chunk"]
    return {"nontrivial": short_last, "classes": classes, "counters": {"values_compared": n * len(want_cols)}}


# ---------------------------------------------------------------------------
# Writers: operation histories
# ---------------------------------------------------------------------------
class WriterExec:
    """Executes a writer history against mokapot and a list-of-rows model."""

    def __init__(self, tmp, init):
        from mokapot import tabular_data as td
        import pyarrow as pa

        self.init = init
        self.kinds = init["kinds"]
        self.names = [f"w{i}_{k}" for i, k in enumerate(self.kinds)]
        # column names are text like any other: they may hold the separator in use, a blank or a quote character
        style = init.get("name_style", "plain")
        if style == "holds-separator":
            self.names = [f"w{i}{init.get('sep', chr(9))} {k}" if i % 2 == 0 else nm for i, (nm, k) in enumerate(zip(self.names, self.kinds))]
        elif style == "blank":
            self.names = [nm.replace("_", " ") for nm in self.names]
        elif style == "leading-quote":
            self.names = [('"' + nm) if i % 2 == 0 else (nm + '"q') for i, nm in enumerate(self.names)]
        ext = ".parquet" if init["fmt"] == "parquet" else ".tab"
        self.path = Path(tmp) / f"out{ext}"
        pa_types = {"int": pa.int64(), "float": pa.float64(), "bool": pa.bool_(), "str": pa.string(), "mixed": pa.float64()}
        np_types = {"int": np.dtype("int64"), "float": np.dtype("float64"), "bool": np.dtype("bool"), "str": np.dtype("object"),
                    "mixed": np.dtype("float64")}
        ctypes = [pa_types[k] for k in self.kinds] if init["fmt"] == "parquet" else [np_types[k] for k in self.kinds]
        self.buffer_type = {"frame": td.TableType.DataFrame, "dicts": td.TableType.Dicts, "records": td.TableType.Records}[init["buffer_kind"]]
        extra_kw = {"sep": init["sep"]} if (init["fmt"] != "parquet" and init.get("sep", "\t") != "\t") else {}
        self.writer = td.TabularDataWriter.from_suffix(self.path, self.names, buffer_size=init["buffer_size"],
                                                       buffer_type=self.buffer_type, column_types=ctypes, **extra_kw)
        self.buffered = init["buffer_size"] > 1
        self.model = []
        self.pending = 0
        self.crossed = False
        self.appends = 0
        guarded(self.writer.initialize, sig="writer.initialize")

    def _df(self, rows):
        data = {}
        np_types = {"int": np.int64, "float": np.float64, "bool": bool, "str": object}
        for j, (nm, k) in enumerate(zip(self.names, self.kinds)):
            vals = [r[j] for r in rows]
            if k == "mixed":
                # a batch that happens to hold only integral values arrives as int64, like a chunk of a text file would
                dt = np.int64 if vals and all(float(v).is_integer() and abs(v) < 2**53 for v in vals) else np.float64
                data[nm] = np.array(vals, dtype=dt)
            else:
                data[nm] = np.array(vals, dtype=np_types[k])
        return pd.DataFrame(data)

    def append(self, rows, how):
        if not rows and how != "frame":
            return
        kind = self.init["buffer_kind"] if self.buffered else "frame"
        if how == "permuted":
            # a frame whose columns come in another order than the writer's: refused (ValueError) or stored under the right
            # names - never stored under the wrong ones.  Only unbuffered writers (a refusal leaves nothing pending).
            if self.buffered or len(self.names) < 2 or not rows:
                return
            df = self._df(rows)
            df = df[list(reversed(self.names))]
            try:
                guarded(self.writer.append_data, df, allowed=[(ValueError, "do not match")], sig="writer.append_data")
            except Rejected:
                self.refused = getattr(self, "refused", 0) + 1
                return
            self.permuted_accepted = True
        elif kind == "frame":
            guarded(self.writer.append_data, self._df(rows), sig="writer.append_data")
        elif kind == "dicts":
            dicts = [dict(zip(self.names, r)) for r in rows]
            if how == "single":
                for d in dicts:
                    guarded(self.writer.append_data, d, sig="writer.append_data")
            elif how == "bulk":
                # the caller fills one list object again and again (clear + extend), as a batching loop does
                if not hasattr(self, "_batch"):
                    self._batch = []
                self._batch.clear()
                self._batch.extend(dicts)
                guarded(self.writer.append_data, self._batch, sig="writer.append_data")
                self.recycled = True
            else:
                guarded(self.writer.append_data, dicts, sig="writer.append_data")
        else:
            recs = self._df(rows).to_records(index=False)
            for rec in recs:
                guarded(self.writer.append_data, rec, sig="writer.append_data")
        bs = self.init["buffer_size"]
        if self.buffered and self.pending > 0 and self.pending + len(rows) >= bs:
            self.crossed = True
        self.pending = (self.pending + len(rows)) % bs if self.buffered else 0
        self.model.extend(rows)
        self.appends += 1

    def reinitialize(self):
        """a second session with the same writer object: the file starts again, nothing of the first session is carried over"""
        guarded(self.writer.initialize, sig="writer.initialize")
        self.model = []
        self.pending = 0
        self.sessions = getattr(self, "sessions", 1) + 1

    def finalize_and_check(self):
        guarded(self.writer.finalize, sig="writer.finalize")
        n = len(self.model)
        reader = self.writer.get_associated_reader()
        got = guarded(reader.read, sig="read-back")
        require(list(got.columns) == self.names, "readback-columns", f"{list(got.columns)} != {self.names}")
        require(len(got) == n, "rows-lost-or-invented", f"read back {len(got)} rows, appended {n} (buffer {self.init})")
        exact = self.init["fmt"] == "parquet"
        for j, (nm, k) in enumerate(zip(self.names, self.kinds)):
            if n:
                _cmp_col(got[nm].tolist(), [r[j] for r in self.model], "float" if k == "mixed" else k, exact, f"readback[{nm}]")


def run_history(ops):
    """ops = [init dict, ("append", rows, how)..., ("finalize",)] ; used by the state machine and by replay."""
    with scratch_dir() as tmp:
        ex = WriterExec(tmp, ops[0])
        done = False
        for op in ops[1:]:
            if op[0] == "append":
                ex.append(op[1], op[2])
            elif op[0] == "finalize":
                ex.finalize_and_check()
                done = True
            elif op[0] == "reinit":
                ex.reinitialize()
                done = False
        if not done:
            ex.finalize_and_check()
        return {"nontrivial": ex.appends >= 2 and ex.crossed, "classes": ["writer-" + ops[0]["fmt"], "buffer-" + (ops[0]["buffer_kind"] if ex.buffered else "none")]
                + (["writer-recycled-batch-list"] if getattr(ex, "recycled", False) else [])
                + (["writer-second-session"] if getattr(ex, "sessions", 1) > 1 else [])
                + (["writer-refused-permuted-columns"] if getattr(ex, "refused", 0) else [])
                + (["writer-custom-separator"] if (ops[0]["fmt"] != "parquet" and ops[0].get("sep", "\t") != "\t") else []),
                "counters": {"rows_written": len(ex.model)}}


def check(case):
    if case.get("kind") == "writer-history":
        ops = [case["ops"][0]] + [tuple(o) for o in case["ops"][1:]]
        return run_history(ops)
    return _check_reader(case)


def _row_strategy(kinds):
    parts = []
    for k in kinds:
        if k == "int":
            parts.append(st.integers(-10**6, 10**6))
        elif k == "float":
            parts.append(st.one_of(st.sampled_from(HARD_FLOATS), st.floats(allow_nan=False, allow_infinity=False)))
        elif k == "bool":
            parts.append(st.booleans())
        elif k == "mixed":
            parts.append(st.sampled_from([0.0, 1.0, 2.0, 500.0, 503.25, 504.5, -3.0, 0.125, 7.0]))
        else:
            parts.append(st.sampled_from(SAFE + ['K2C1 "keratin"', 'x"y']))  # a text writer quotes such values, its reader unquotes them
    return st.tuples(*parts).map(list)


def extra(tier, seed, shard, nshards, stats):
    """Stateful part: Hypothesis rule-based machine over writer histories."""
    import hypothesis
    from hypothesis import HealthCheck, settings
    from hypothesis.stateful import RuleBasedStateMachine, initialize, precondition, rule, run_state_machine_as_test

    last_fail = {}
    tmpctx = scratch_dir()
    tmp_root = tmpctx.__enter__()
    counter = {"n": 0}

    class WriterMachine(RuleBasedStateMachine):
        def __init__(self):
            super().__init__()
            self.ex = None
            self.ops = []
            self.finalized = False

        @initialize(fmt=st.sampled_from(["tsv", "parquet"]), buffer_size=st.sampled_from([0, 0, 2, 3, 4, 5, 9]),
                    buffer_kind=st.sampled_from(["frame", "dicts", "records"]),
                    kinds=st.lists(st.sampled_from(WRITER_KINDS), min_size=1, max_size=4),
                    sep=st.sampled_from(["\t", "\t", ",", ";", "|"]),
                    name_style=st.sampled_from(["plain", "plain", "plain", "holds-separator", "blank", "leading-quote"]))
        def init(self, fmt, buffer_size, buffer_kind, kinds, sep, name_style):
            counter["n"] += 1
            d = tmp_root / f"m{counter['n']}"
            d.mkdir()
            init = {"fmt": fmt, "buffer_size": buffer_size, "buffer_kind": buffer_kind, "kinds": kinds, "sep": sep, "name_style": name_style}
            self.ops = [init]
            self._step(lambda: setattr(self, "ex", WriterExec(d, init)))

        def _step(self, fn):
            try:
                fn()
            except Violation as v:
                last_fail["ops"] = [self.ops[0]] + [list(o) for o in self.ops[1:]]
                last_fail["v"] = v
                raise

        @precondition(lambda self: self.ex is not None and not self.finalized)
        @rule(data=st.data(), k=st.integers(0, 7), how=st.sampled_from(["bulk", "single", "frame", "permuted"]))
        def append(self, data, k, how):
            rows = [data.draw(_row_strategy(self.ex.kinds)) for _ in range(k)]
            self.ops.append(("append", rows, how))
            self._step(lambda: self.ex.append(rows, how))

        @precondition(lambda self: self.ex is not None and not self.finalized)
        @rule()
        def finalize(self):
            self.ops.append(("finalize",))
            self.finalized = True
            self._step(self.ex.finalize_and_check)

        @precondition(lambda self: self.finalized)
        @rule()
        def reinit(self):
            self.ops.append(("reinit",))
            self.finalized = False
            self._step(self.ex.reinitialize)

        @precondition(lambda self: self.finalized)
        @rule()
        def idle(self):
            pass  # a finalised writer accepts nothing more; keeps the machine from running out of rules

        def teardown(self):
            if self.ex is None:
                return
            if not self.finalized:
                self.finalized = True
                self.ops.append(("finalize",))
                self._step(self.ex.finalize_and_check)
            case = {"kind": "writer-history", "ops": [self.ops[0]] + [list(o) for o in self.ops[1:]]}
            stats.evaluations += 1
            stats.observe(case, {"nontrivial": self.ex.appends >= 2 and self.ex.crossed,
                                 "classes": ["writer-" + self.ops[0]["fmt"], "buffer-" + (self.ops[0]["buffer_kind"] if self.ex.buffered else "none")]
                                 + (["writer-second-session"] if getattr(self.ex, "sessions", 1) > 1 else [])
                                 + (["writer-refused-permuted-columns"] if getattr(self.ex, "refused", 0) else [])
                                 + (["writer-stored-permuted-columns"] if getattr(self.ex, "permuted_accepted", False) else []),
                                 "counters": {"rows_written": len(self.ex.model), "writer_histories": 1}})

    n = (1600 if tier == "quick" else 48000) // nshards
    try:
        run_state_machine_as_test(
            hypothesis.seed(seed * 1000 + shard + 500)(WriterMachine),
            settings=settings(max_examples=max(1, n), stateful_step_count=12, deadline=None, database=None,
                              report_multiple_bugs=False, print_blob=False, suppress_health_check=list(HealthCheck)),
        )
    except Violation as v:
        stats.failure = {"case": {"kind": "writer-history", "ops": last_fail.get("ops")}, "signature": v.signature, "message": v.message}
    finally:
        tmpctx.__exit__(None, None, None)
