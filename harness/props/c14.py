"""C14 - k-way merge returns every row once, globally sorted by score."""

from __future__ import annotations

import numpy as np
import pandas as pd
from hypothesis import strategies as st

import config_inject
from core import Violation, guarded, require, scratch_dir

ID = "C14"
LEVEL = "exploration"
TECHNIQUE = (
    "Hypothesis-generated sets of sorted inputs with ties x chunk sizes x formats x both merge implementations and "
    "all their entry points; oracle = multiset equality with the inputs + global order; inputs with one inversion "
    "must be rejected by the table merger"
)
RULE = (
    "case = 1-8 inputs of 1-25 rows (unique id, score from a small dyadic value set incl. 0.0, negatives and optionally +-inf => ties, optional integer and text columns with missing values, "
    "payload; header names plain or not Python identifiers: 'mokapot score', 'Spec Id', 'scan-nr', 'class', '_rank'), sorted as declared, tsv/parquet, reader/merge chunk size 1..n+1, implementation in {utils.merge_sort, "
    "MergedTabularDataReader.read / chunked / row iterator (DataFrame, Dicts, Records), merge_readers}, descending "
    "(ascending too for the table merger); negative variant = one adjacent inversion in one input. Non-trivial: >=2 "
    "inputs, a score value shared by >=2 inputs, and chunk size < longest input. Distinct = distinct canonical JSON."
)
ASSUMPTIONS = [
    "scores are dyadic rationals so that they survive the text round trip bit-exactly",
    "every input has at least one row (the statement quantifies over inputs of 1..N rows)",
]
VALUES = [-4.0, -2.0, -1.0, -0.5, -0.125, 0.0, 0.125, 0.25, 0.5, 1.0, 1.5, 2.0, 3.0, 8.0]
INF = float("inf")
# column layouts: header names need not be Python identifiers (PIN-style "Spec Id", dashes, keywords, leading "_")
NAMES = {
    "plain": ["id", "score", "payload", "num"],
    "odd": ["id", "mokapot score", "Spec Id", "scan-nr"],
    "kw": ["id", "score", "class", "_rank"],
}
IMPLS = ["merge_sort", "read", "chunked", "rows-df", "rows-dicts", "rows-records", "merge_readers"]


def budget(tier):
    if tier == "quick":
        return {"examples": 4800, "shards": 16, "time_s": 60}
    return {"examples": 160000, "shards": 16, "time_s": 1500}


@st.composite
def _case(draw, tier):
    k = draw(st.integers(1, 8))
    nvals = draw(st.integers(1, len(VALUES)))
    vals = draw(st.lists(st.sampled_from(VALUES), min_size=nvals, max_size=nvals, unique=True))
    # infinite scores are legal floats (a PSM nothing competes with / a failed score): one case in 6 has them
    infs = draw(st.sampled_from([0, 0, 0, 0, 0, 1]))
    if infs:
        vals = vals + draw(st.sampled_from([["-inf"], ["inf"], ["-inf", "inf"]]))
    inputs = []
    for _ in range(k):
        m = draw(st.integers(1, 25))
        inputs.append(draw(st.lists(st.sampled_from(vals), min_size=m, max_size=m)))
    impl = draw(st.sampled_from(IMPLS))
    desc = True if impl == "merge_sort" else draw(st.sampled_from([True, True, False]))
    nmax = max(len(x) for x in inputs)
    neg = draw(st.sampled_from([False] * 5 + [True])) and impl != "merge_sort"
    return {
        "inputs": inputs,
        "impl": impl,
        "desc": desc,
        "fmt": draw(st.sampled_from(["tsv", "parquet"])),
        "chunk": draw(st.integers(1, nmax + 1)),
        "out_chunk": draw(st.integers(1, 12)),
        "negative": neg,
        "neg_input": draw(st.integers(0, k - 1)),
        "neg_pos": draw(st.integers(0, 24)),
        "subset": draw(st.booleans()),
        "names": draw(st.sampled_from(["plain", "plain", "odd", "kw"])),
        "nulls": draw(st.sampled_from([False, False, True])),
        # integer priorities beyond 2**53 (64-bit ids / nanosecond time stamps): neighbours differ by less than float64 spacing
        "bigint": draw(st.sampled_from([False, False, False, True])),
        # a second pass over the same merged reader started while the first is under way
        "overlap": draw(st.sampled_from([False, False, True])),
        # row-dict merge histories: an earlier merge over other inputs abandoned part way (a consumer that stops at a
        # threshold), or a second merge consumed alternately with the observed one
        "history": draw(st.sampled_from(["none", "abandoned", "abandoned", "interleaved"])),
        "history_steps": draw(st.integers(1, 6)),
        # one input listed twice (the same path given two times): its rows are merged two times, like any other input's
        "dup": draw(st.sampled_from([None, None, None, 0, 1, 2])),
        # text inputs print whole values of the payload number column without a decimal point (7 rather than 7.0)
        "compact": draw(st.booleans()),
    }


def strategy(tier):
    return _case(tier)


def check(case):
    from mokapot import streaming as stm
    from mokapot import tabular_data as td
    from mokapot import utils as mutils

    desc = case["desc"]
    bigint = bool(case.get("bigint"))
    if bigint:
        rank = {v: i for i, v in enumerate(sorted({float(v) for x in case["inputs"] for v in x}))}
        inputs = [sorted((2**60 + rank[float(v)] for v in x), reverse=desc) for x in case["inputs"]]
    else:
        inputs = [sorted((float(v) for v in x), reverse=desc) for x in case["inputs"]]
    # columns with gaps only for Parquet inputs (explicit schema): a text reader infers another type for an input whose
    # column happens to be complete / entirely empty, and the table merger rejects inputs of differing types
    nulls = bool(case.get("nulls")) and case["fmt"] == "parquet"
    negative = case["negative"]
    if negative:
        i = case["neg_input"]
        row = inputs[i]
        # one adjacent inversion: needs two different values in that input
        pos = [p for p in range(len(row) - 1) if row[p] != row[p + 1]]
        if not pos:
            negative = False
        else:
            p = pos[case["neg_pos"] % len(pos)]
            row[p], row[p + 1] = row[p + 1], row[p]
    ext = ".parquet" if case["fmt"] == "parquet" else ".tab"
    cols = list(NAMES[case.get("names", "plain")])
    c_id, c_score, c_pay, c_num = cols
    if case.get("nulls") and case["fmt"] == "parquet":
        cols = cols + ["charge", "mod"]
    all_rows = {}
    with scratch_dir() as tmp:
        paths = []
        for fi, scores in enumerate(inputs):
            df = pd.DataFrame({
                c_id: [f"i{fi}_{j}" for j in range(len(scores))],
                c_score: np.array(scores, dtype=np.int64 if bigint else float),
                c_pay: [f"p{fi}x{j}" for j in range(len(scores))],
                c_num: [float(fi) + max(0, j - 1) / 64.0 for j in range(len(scores))],  # the first two are whole numbers
            })
            if nulls:
                # optional columns with gaps: an integer column (charge) and a text column (modification)
                df["charge"] = pd.array([None if (fi + j) % 3 == 0 else 2 + (fi + j) % 3 for j in range(len(scores))], dtype="Int64")
                df["mod"] = pd.array([None if (fi + 2 * j) % 4 == 0 else f"m{fi}_{j}" for j in range(len(scores))], dtype="string")
            for r in df.astype(object).where(df.notna(), None).to_dict("records"):
                all_rows[r[c_id]] = r
            p = tmp / f"in{fi}{ext}"
            if ext == ".parquet" and nulls and (fi + len(scores)) % 2 == 0:
                # a file written by another tool: plain Arrow schema (int64 / string with nulls), no pandas metadata
                import pyarrow as pa
                import pyarrow.parquet as pq

                pq.write_table(pa.Table.from_pandas(df, preserve_index=False).replace_schema_metadata(None), p)
            elif ext == ".parquet":
                df.to_parquet(p, index=False)
            elif case.get("compact"):
                dft = df.astype(object)
                dft[c_num] = [str(int(v)) if float(v).is_integer() else repr(float(v)) for v in df[c_num]]
                dft.to_csv(p, sep="\t", index=False)
            else:
                df.to_csv(p, sep="\t", index=False)
            paths.append(p)
        dup_ids = []
        if case.get("dup") is not None:
            j_ = case["dup"] % len(paths)
            paths.append(paths[j_])
            dup_ids = [f"i{j_}_{r_}" for r_ in range(len(inputs[j_]))]
            inputs = inputs + [inputs[j_]]
        impl = case["impl"]
        req_cols = [c_score, c_id] if (case["subset"] and impl in ("read", "chunked", "rows-dicts")) else None

        def run():
            if impl == "merge_sort":
                hist = case.get("history", "none")
                other = list(reversed(paths))
                with config_inject.chunk_sizes(merge=case["chunk"]):
                    if hist == "abandoned":
                        it0 = mutils.merge_sort(other, score_column=c_score)
                        for _ in range(case.get("history_steps", 1)):
                            next(it0, None)
                    if hist == "interleaved":
                        a, b = mutils.merge_sort(paths, score_column=c_score), mutils.merge_sort(other, score_column=c_score)
                        out_a, out_b = [], []
                        for ra, rb in zip(a, b):
                            out_a.append(dict(ra))
                            out_b.append(dict(rb))
                        sb = [float(r[c_score]) for r in out_b]
                        require(sorted(r[c_id] for r in out_b) == sorted(list(all_rows) + dup_ids) and all(x >= y for x, y in zip(sb, sb[1:])),
                                "interleaved-merge", f"second of two alternately consumed merges: {len(out_b)} rows, scores {sb[:20]}")
                        return out_a
                    return [dict(r) for r in mutils.merge_sort(paths, score_column=c_score)]
            readers = [td.TabularDataReader.from_path(p) for p in paths]
            if impl == "merge_readers":
                it = stm.merge_readers(readers, c_score, descending=desc, reader_chunk_size=case["chunk"])
                out = []
                for ch in it:
                    require(len(ch) == 1, "merge_readers-chunk", f"chunk of {len(ch)} rows")
                    out.extend(ch.to_dict("records"))
                return out
            m = stm.MergedTabularDataReader(readers, c_score, descending=desc, reader_chunk_size=case["chunk"])
            if impl == "read":
                return m.read(columns=req_cols).to_dict("records")
            if impl == "chunked":
                out = []
                sizes = []
                it = m.get_chunked_data_iterator(chunk_size=case["out_chunk"], columns=req_cols)
                for ci, ch in enumerate(it):
                    if ci == 0 and case.get("overlap"):
                        # peek, read everything, continue: passes over one reader object are independent of each other
                        whole = m.read(columns=req_cols)
                        require(len(whole) == sum(len(x) for x in inputs), "overlapping-pass",
                                f"read() during a chunked pass returned {len(whole)} rows for {sum(len(x) for x in inputs)}")
                    sizes.append(len(ch))
                    require(list(ch.index) == list(range(len(ch))), "chunk-index", "chunk index not reset")
                    out.extend(ch.to_dict("records"))
                require(all(s == case["out_chunk"] for s in sizes[:-1]) and (not sizes or 0 < sizes[-1] <= case["out_chunk"]),
                        "chunk-sizes", f"{sizes} for chunk size {case['out_chunk']}")
                return out
            rt = {"rows-df": td.TableType.DataFrame, "rows-dicts": td.TableType.Dicts, "rows-records": td.TableType.Records}[impl]
            out = []
            for row in m.get_row_iterator(columns=req_cols, row_type=rt):
                if impl == "rows-df":
                    require(len(row) == 1, "row-shape", "row iterator must yield single rows")
                    out.append(row.iloc[0].to_dict())
                elif impl == "rows-dicts":
                    out.append(dict(row))
                else:
                    out.append({n: row[n].item() if hasattr(row[n], "item") else row[n] for n in row.dtype.names})
            return out

        if negative:
            try:
                out = run()
            except ValueError:
                return {"nontrivial": len(inputs) >= 2, "classes": ["negative", impl], "counters": {"negative": 1}}
            except Violation:
                raise
            except Exception as e:  # noqa: BLE001
                raise Violation("unsorted-wrong-error", f"{impl}: {type(e).__name__}: {e}") from None
            raise Violation("unsorted-accepted",
                            f"{impl}: input {case['neg_input']} is not sorted as declared ({inputs[case['neg_input']]}) but the merge "
                            f"completed with {len(out)} rows (reader chunk {case['chunk']})")
        out = guarded(run, sig=impl)
    n = sum(len(x) for x in inputs)
    for r in out:
        require(c_id in r, "columns", f"{impl}: row keys {list(r.keys())} for header {cols}")
    ids = [r[c_id] for r in out]
    require(len(ids) == n and sorted(ids) == sorted(list(all_rows) + dup_ids), "rows-lost-or-duplicated",
            f"{impl}: {len(ids)} rows out for {n} in; missing {sorted(set(all_rows) - set(ids))[:3]}, "
            f"duplicated {sorted({i for i in ids if ids.count(i) > 1})[:3]}")
    want = cols if req_cols is None else req_cols
    for r in out:
        src = all_rows[r[c_id]]
        require(list(r.keys()) == want if impl != "merge_sort" else set(r) == set(cols), "columns", f"{impl}: row keys {list(r.keys())}")
        for c in want:
            a, b = r[c], src[c]
            if c in ("charge", "mod"):
                # missing stays missing, a present value stays that value; the row-dict merge of Parquet files hands the
                # stored values through as they are (None, int), the other routes go through a DataFrame (NaN, float)
                a_missing = a is None or (isinstance(a, float) and a != a) or a is pd.NA
                if b is None:
                    ok = a_missing
                else:
                    ok = (not a_missing) and ((float(a) == float(b)) if c == "charge" else (str(a) == str(b)))
                if ok and impl == "merge_sort" and case["fmt"] == "parquet":
                    ok = (a is None) if b is None else (type(a) is type(b) and a == b)
            else:
                ok = (int(a) == int(b) if (bigint and c == c_score) else float(a) == float(b)) if c in (c_score, c_num) else (str(a) == str(b))
            require(ok, "row-modified", f"{impl}: {r[c_id]} column {c}: {a!r} != {b!r}")
    sc = [int(r[c_score]) if bigint else float(r[c_score]) for r in out]
    mono = all(a >= b for a, b in zip(sc, sc[1:])) if desc else all(a <= b for a, b in zip(sc, sc[1:]))
    require(mono, "not-sorted", f"{impl}: merged scores are not globally {'non-increasing' if desc else 'non-decreasing'}: {sc[:20]}")
    flat = [set(x) for x in inputs]
    shared = len(inputs) >= 2 and any(len([1 for s in flat if v in s]) >= 2 for v in set().union(*flat))
    nontrivial = len(inputs) >= 2 and shared and case["chunk"] < max(len(x) for x in inputs)
    classes = [impl, case["fmt"], "desc" if desc else "asc", "names-" + case.get("names", "plain")]
    if any(0.0 in x for x in inputs):
        classes.append("has-zero")
    if any(len(x) == 1 for x in inputs):
        classes.append("single-row-input")
    if any(v in (INF, -INF) for x in inputs for v in x):
        classes.append("infinite-scores")
    if nulls:
        classes.append("columns-with-missing-values")
    if bigint:
        classes.append("integer-scores-beyond-2**53")
    if dup_ids:
        classes.append("input-listed-twice")
    if case.get("compact") and case["fmt"] == "tsv":
        classes.append("text-whole-numbers-without-decimal-point")
    if case.get("overlap") and impl == "chunked":
        classes.append("overlapping-passes")
    if impl == "merge_sort" and case.get("history", "none") != "none":
        classes.append("merge-history-" + case["history"])
    return {"nontrivial": nontrivial, "classes": classes, "counters": {"rows_merged": n}}
