"""C15 - picked-protein: one entry per target/decoy protein pair, won by its best peptide."""

from __future__ import annotations

import itertools

import numpy as np
import pandas as pd
from hypothesis import strategies as st

import config_inject
import datagen
from core import Rejected, guarded, require, scratch_dir
from props.c16 import PREFIX, TP
from props.c17 import digest_ref
from refs import tdc_ref

ID = "C15"
LEVEL = "exploration"
TECHNIQUE = (
    "Hypothesis-generated protein/peptide incidence structures with mirrored decoys x peptide tables x modification "
    "and flank notations, run end to end (read_fasta -> assign_confidence with proteins); oracle = independent "
    "picked-protein reference on member sets + exact TDC reference over the entries"
)
RULE = (
    "case = incidence matrix (2-9 target proteins x 1-9 constructed tryptic peptides: subset chains, shared peptides, "
    "identical proteins) with mirrored decoys in the same relative order, a peptide table = drawn subset of target and "
    "decoy peptides with distinct scores, each optionally decorated (flanks K.X.A / -.X.-, [..] and (..) modifications "
    "incl. a dot, two modifications on one peptide, lower-case modification letters, a second modified variant), optional extra rollup-level columns (a peptide group coarser than the peptide), proteins route = read_fasta (complete decoys, one decoy entry missing, or a target-only database) or a "
    "Proteins object built from the reference grouping, PSM table as text or Parquet. Non-trivial: >=1 shared peptide observed and >=1 pair where "
    "both sides have a unique peptide. Distinct = distinct canonical JSON."
)
ASSUMPTIONS = [
    "decoy entries mirror the targets and are listed in the same relative order (see known finding K1: with another "
    "order identical proteins form differently named groups that are not paired)",
    "scores are distinct, so the best peptide of a pair is unique",
    "at least one observed peptide is unique to a protein group (with none, picked_protein fails on its empty table)",
    "q-values within 2.5e-7 relative of the exact reference; PEP estimation replaced by the score-function stub",
]


def budget(tier):
    if tier == "quick":
        return {"examples": 1600, "shards": 16, "time_s": 60}
    return {"examples": 64000, "shards": 16, "time_s": 1500}


DECOR = ["plain", "flank", "termflank", "bracket", "paren", "dotmod", "lower", "nterm", "twomods", "twomods-flank"]


@st.composite
def _case(draw, tier):
    np_ = draw(st.integers(2, 9))
    nq = draw(st.integers(2, 9))
    rows = []
    for i in range(np_):
        if rows and draw(st.booleans()):
            src = rows[draw(st.integers(0, len(rows) - 1))]
            mask = draw(st.lists(st.booleans(), min_size=nq, max_size=nq))
            rows.append([int(a and b) for a, b in zip(src, mask)] if draw(st.booleans()) else list(src))
        else:
            rows.append([int(x) for x in draw(st.lists(st.booleans(), min_size=nq, max_size=nq))])
    rows[0][0] = 1
    if not rows[-1][1]:
        rows[-1][1] = 1
    drop_decoy = draw(st.sampled_from([False, False, True]))
    if drop_decoy and nq < 9:
        # an isolated protein with a peptide of its own (e.g. a contaminant): the entry whose decoy will be left out
        rows = [r + [0] for r in rows] + [[0] * nq + [1]]
        nq += 1
    # peptide table: for each of the 2*nq peptides: absent / present (+ optional second variant)
    table = []
    for side in (0, 1):
        for j in range(nq):
            present = draw(st.integers(0 if j > 1 else 1, 3))  # 0 absent
            if present:
                table.append({"side": side, "j": j, "decor": draw(st.sampled_from(DECOR)), "rank": draw(st.integers(0, 10**6))})
                if present == 3:
                    table.append({"side": side, "j": j, "decor": draw(st.sampled_from(["bracket", "dotmod", "paren"])),
                                  "rank": draw(st.integers(0, 10**6)), "variant": True})
    return {"matrix": rows, "table": table, "route": draw(st.sampled_from(["fasta", "fasta", "object", "fasta-target-only"])),
            "drop_decoy": drop_decoy,
            "known_order": "mirror", "conf_chunk": draw(st.sampled_from([None, 2, 5])),
            "fmt": draw(st.sampled_from(["tsv", "tsv", "parquet"])),
            "extra_levels": draw(st.sampled_from([[], [], ["PeptideGroup"], ["ModifiedPeptide", "PeptideGroup"], ["Precursor"]])),
            "reuse_proteins": draw(st.sampled_from([False, True])),
            "lower": draw(st.sampled_from([False, False, True])),
            "direct_index": draw(st.sampled_from(["default", "sorted", "reversed", "offset"]))}


def strategy(tier):
    return _case(tier)


def _pep(side, j):
    return TP[j] if side == 0 else TP[j][:-1][::-1] + "K"


def _decorate(p, kind, variant=False):
    mid = len(p) // 2
    if kind == "flank":
        return f"K.{p}.A"
    if kind == "termflank":
        return f"-.{p}.-"
    if kind == "bracket":
        return p[:mid] + "[+16]" + p[mid:] if not variant else p[:1] + "[+1]" + p[1:]
    if kind == "paren":
        return p[:mid] + "(ox)" + p[mid:] if not variant else p[:2] + "(ph)" + p[2:]
    if kind == "dotmod":
        return "R." + p[:mid] + "[+15.995]" + p[mid:] + ".G" if not variant else p[:3] + "[+79.97]" + p[3:]
    if kind == "twomods":
        return p[:2] + "[+57.02]" + p[2:4] + "[+57.02]" + p[4:]
    if kind == "twomods-flank":
        return "R." + p[:1] + "(ox)" + p[1:3] + "[+15.995]" + p[3:] + ".S"
    if kind == "lower":
        return p[:mid] + "m" + p[mid:]
    if kind == "nterm":
        return "n[+42]" + p
    return p


def _groups(S):
    """maximal-subset grouping on {protein: peptide set} -> list of (frozenset members, peptide set)"""
    names = list(S)
    maximal = []
    for a in names:
        if not any(S[a] < S[b] for b in names):
            if not any(S[a] == m for m in maximal):
                maximal.append(S[a])
    return [(frozenset(n for n in names if S[n] <= m), m) for m in maximal]


def _check_cli_prefix(case):
    """Command line with --proteins: renaming the decoy prefix consistently (FASTA entries + --decoy_prefix) leaves the
    protein-level result unchanged up to that name.  brew is replaced by 'scores = feature f0' (the roll-up is the subject)."""
    import contextlib
    import io

    import mokapot.peps as mpeps
    from mokapot import mokapot as cli

    from core import Violation
    from props import c08

    config_inject.install_pep_stub()
    spec = {"seed": case["seed"], "n_spectra": case["n"], "key": 2, "fmt": "tsv", "fasta_decoys": True}
    real_brew, saved_pep = cli.brew, mpeps.PEP_ALGORITHM["qvality"]

    def fake_brew(datasets, model=None, **kw):
        return datasets, [], [np.asarray(d.read_data(columns=["f0"])["f0"].values, dtype=float) for d in datasets], [True] * len(datasets)

    results = {}
    with scratch_dir() as tmp:
        pin, fasta = c08._build_inputs(spec, tmp)
        text = fasta.read_text()
        for prefix in ("decoy_", case["prefix"]):
            d = tmp / ("run_" + prefix.strip("_-"))
            d.mkdir()
            f2 = d / "db.fasta"
            f2.write_text(text.replace(">decoy_", ">" + prefix))
            p2 = d / "exp.pin"
            p2.write_text(pin.read_text())
            mpeps.PEP_ALGORITHM["qvality"] = mpeps.PEP_ALGORITHM["verif_stub"]
            cli.brew = fake_brew
            try:
                with contextlib.redirect_stderr(io.StringIO()), contextlib.redirect_stdout(io.StringIO()):
                    guarded(cli.main, [str(p2), "--dest_dir", str(d / "out"), "--proteins", str(f2), "--decoy_prefix", prefix, "--min_length", "6",
                                       "--missed_cleavages", "0", "--keep_decoys", "--test_fdr", "0.2", "--verbosity", "0", "--peps_algorithm", "qvality"],
                            sig="cli")
            finally:
                cli.brew = real_brew
                mpeps.PEP_ALGORITHM["qvality"] = saved_pep
            res = {}
            for nm in ("targets.proteins", "decoys.proteins"):
                f = d / "out" / nm
                require(f.exists(), "protein-files", f"--decoy_prefix {prefix}: {nm} missing ({sorted(x.name for x in (d / 'out').iterdir())})")
                res[nm] = f.read_text().replace(prefix, "decoy_") if prefix != "decoy_" else f.read_text()
            results[prefix] = res
    a, b = results["decoy_"], results[case["prefix"]]
    for nm in a:
        require(a[nm] == b[nm], "cli-decoy-prefix",
                f"command line with --proteins: {nm} differs between a database with prefix 'decoy_' and the same database with prefix "
                f"{case['prefix']!r} (+ --decoy_prefix): {a[nm].count(chr(10)) - 1} vs {b[nm].count(chr(10)) - 1} entries")
    return {"nontrivial": True, "classes": ["cli-decoy-prefix"], "counters": {"cli_runs": 2}}


def extra(tier, seed, shard, nshards, stats):
    from core import Violation

    reps = 1 if tier == "quick" else 4
    for r in range(reps):
        case = {"kind": "cli-prefix", "seed": seed * 1009 + shard * 17 + r, "n": 260 + 20 * ((shard + r) % 4), "prefix": ["rev_", "DECOY-", "xx_"][(shard + r) % 3]}
        stats.evaluations += 1
        try:
            obs = _check_cli_prefix(case)
        except Rejected as rej:
            stats.rejected += 1
            stats.rejected_reasons[str(rej)[:80]] += 1
            continue
        except Violation as v:
            stats.failure = {"case": case, "signature": v.signature, "message": v.message}
            return
        stats.observe(case, obs)


def check(case):
    if case.get("kind") == "cli-prefix":
        return _check_cli_prefix(case)
    import mokapot
    from mokapot.proteins import Proteins

    config_inject.install_pep_stub()
    matrix = case["matrix"]
    nq = len(matrix[0])
    targets = [(f"P{i}", "".join(TP[j] for j, b in enumerate(r) if b)) for i, r in enumerate(matrix)]
    decoys = [(PREFIX + n, "".join(_pep(1, j) for j, b in enumerate(matrix[i]) if b)) for i, (n, _) in enumerate(targets)]
    if case.get("known_order") == "reversed":
        decoys = list(reversed(decoys))
    S_t = {n: digest_ref(s, "[KR]", 0, 6, 50, False, False)[0] for n, s in targets}
    S_t = {n: v for n, v in S_t.items() if v}
    if not S_t:
        raise Rejected("no target protein yields a peptide")
    tgroups = _groups(S_t)
    # group index -> (target members, target peptides, decoy members, decoy peptides)
    mirror = {TP[j]: _pep(1, j) for j in range(len(TP))}
    pairs = []
    for members, peps in tgroups:
        pairs.append({"t": members, "tp": peps, "d": frozenset(PREFIX + m for m in members), "dp": {mirror[p] for p in peps}})
    owner = {}
    for gi, pr in enumerate(pairs):
        for p in pr["tp"]:
            owner.setdefault(p, []).append((gi, True))
        for p in pr["dp"]:
            owner.setdefault(p, []).append((gi, False))
    # ---- peptide table -----------------------------------------------------------------
    ranks = sorted({e["rank"] for e in case["table"]})
    rows, seen = [], set()
    for e in case["table"]:
        stripped = _pep(e["side"], e["j"])
        if stripped not in owner:
            continue  # peptide of no protein: not in the database
        dec = _decorate(stripped, e["decor"], e.get("variant", False))
        if dec in seen:
            continue
        seen.add(dec)
        score = float(ranks.index(e["rank"])) + 0.25 * len(rows) / (len(case["table"]) + 1)
        rows.append({"dec": dec, "stripped": stripped, "score": score, "target": e["side"] == 0})
    route = case["route"]
    # a database with partial decoys: the decoy entry of one target that forms a group of its own is left out (e.g. a
    # contaminant appended after decoy generation); its decoy peptides cannot occur in the peptide table then
    dropped = None
    if case.get("drop_decoy") and route == "fasta":
        # only a protein that shares no peptide with any other entry: removing its decoy leaves every other mapping untouched
        singles = [next(iter(pr["t"])) for pr in pairs if len(pr["t"]) == 1 and all(len(owner[p_]) == 1 for p_ in pr["tp"])]
        if len(singles) >= 1 and len(pairs) >= 2:
            dropped = singles[-1]
            gone = next(pr for pr in pairs if pr["t"] == frozenset([dropped]))["dp"]
            rows = [r for r in rows if not (not r["target"] and r["stripped"] in gone and len(owner[r["stripped"]]) == 1)]
            decoys = [d for d in decoys if d[0] != PREFIX + dropped]
    if route == "fasta-target-only":
        # decoy groups mirror the targets; a decoy peptide is matched to the unique target peptide of the same composition,
        # so only decoy peptides whose target twin is unique to a group belong to the domain
        rows = [r for r in rows if r["target"] or len(owner[r["stripped"]]) == 1]
        decoys = []
    scores = [r["score"] for r in rows]
    if len(set(scores)) != len(scores) or len(rows) < 2:
        raise Rejected("generator: scores not distinct / fewer than two peptides")
    if not any(len(owner[r["stripped"]]) == 1 for r in rows):
        raise Rejected("generator: no observed peptide is unique to a protein group (empty protein level; outside the domain)")
    n = len(rows)
    df = pd.DataFrame({
        "SpecId": [f"psm{i}" for i in range(n)],
        "Label": [1 if r["target"] else -1 for r in rows],
        "ScanNr": np.arange(1, n + 1),
        "ExpMass": np.arange(n) * 1.5 + 500.0,
        "f0": scores,
        "Peptide": [r["dec"] for r in rows],
        "Proteins": ["x" for _ in rows],
    })
    extra = list(case.get("extra_levels") or [])
    for lv in extra:
        if lv == "PeptideGroup":  # coarser than the peptide: consecutive peptides share a group
            df.insert(len(df.columns) - 1, lv, [f"grp{i // 2}" for i in range(n)])
        elif lv == "ModifiedPeptide":
            df.insert(len(df.columns) - 1, lv, [r["dec"] + "_m" for r in rows])
        else:
            df.insert(len(df.columns) - 1, lv, [r["dec"] + "/2" for r in rows])
    meta = {"key_cols": ["ScanNr", "ExpMass"], "features": ["f0"], "levels": ["Peptide"] + extra}
    with scratch_dir() as tmp:
        fasta = tmp / "db.fasta"
        fasta.write_text("".join(f">{nm}\n{s}\n" for nm, s in targets + decoys))
        fasta.write_text("".join(f">{nm}\n{s}\n" for nm, s in targets + decoys))
        if case["route"] in ("fasta", "fasta-target-only"):
            prot = guarded(mokapot.read_fasta, str(fasta), enzyme="[KR]", missed_cleavages=0, min_length=6, max_length=50, decoy_prefix=PREFIX,
                           sig="read_fasta")
        else:
            pmap, shared = {}, {}
            names = {}
            for gi, pr in enumerate(pairs):
                # like read_fasta: a member owning the whole peptide set leads the group name
                mem = sorted(pr["t"], key=lambda x: (S_t[x] != pr["tp"], int(x[1:])))
                names[(gi, True)] = ", ".join(mem)
                names[(gi, False)] = ", ".join(PREFIX + m for m in mem)
            for p, own in owner.items():
                if len(own) == 1:
                    pmap[p] = names[own[0]]
                else:
                    shared[p] = "; ".join(names[o] for o in own)
            prot = Proteins(decoy_prefix=PREFIX, peptide_map=pmap, shared_peptides=shared,
                            protein_map={m: PREFIX + m for m in S_t}, has_decoys=True)
        path = tmp / ("psms.parquet" if case.get("fmt") == "parquet" else "psms.pin")
        datagen.write_table(df, path)
        ds = datagen.build_ondisk(path, df, meta)
        out = tmp / "out"
        out.mkdir()
        before = (dict(prot.peptide_map), dict(prot.shared_peptides), dict(prot.protein_map))
        if case.get("reuse_proteins") and n >= 4:
            # history: the same Proteins object served another peptide table before (several files analysed one after the
            # other, a threshold sweep ...); only the observed run below is judged
            half = df.iloc[: n // 2].reset_index(drop=True)
            ppath = tmp / ("pre.parquet" if case.get("fmt") == "parquet" else "pre.pin")
            datagen.write_table(half, ppath)
            pre_out = tmp / "pre_out"
            pre_out.mkdir()
            try:
                with config_inject.chunk_sizes(confidence=case.get("conf_chunk")):
                    mokapot.assign_confidence([datagen.build_ondisk(ppath, half, meta)], max_workers=1, scores=[np.array(scores[: n // 2], dtype=float)],
                                              descs=[True], eval_fdr=0.05, dest_dir=pre_out, prefixes=[None], decoys=True, proteins=prot,
                                              peps_algorithm="verif_stub")
            except Exception:  # noqa: BLE001  (e.g. no unique peptide in that half: outside the domain, and not the observed run)
                pass
        with config_inject.chunk_sizes(confidence=case.get("conf_chunk")):
            # a lower-is-better score (e.g. an E-value): the same analysis with every score negated and descs=[False]
            lower = bool(case.get("lower"))
            guarded(mokapot.assign_confidence, [ds], max_workers=1, scores=[np.array(scores, dtype=float) * (-1.0 if lower else 1.0)],
                    descs=[not lower], eval_fdr=0.05, dest_dir=out, prefixes=[None], decoys=True, proteins=prot, peps_algorithm="verif_stub",
                    sig="assign_confidence")  # every observed peptide is in the database: 'could not be mapped' errors are violations
        # the database description is the same object for every later file / call: a roll-up must not write into it
        after = (dict(prot.peptide_map), dict(prot.shared_peptides), dict(prot.protein_map))
        for nm, b_, a_ in zip(("peptide_map", "shared_peptides", "protein_map"), before, after):
            require(a_ == b_, "proteins-object-changed",
                    f"Proteins.{nm} differs after the protein-level roll-up ({len(b_)} -> {len(a_)} entries, e.g. "
                    f"{sorted(set(a_.items()) ^ set(b_.items()))[:2]}): the same object serves every later file")
        tf, dfp = out / "targets.proteins", out / "decoys.proteins"
        require(tf.exists() and dfp.exists(), "protein-files", f"{sorted(p.name for p in out.iterdir())}")
        got_t = pd.read_csv(tf, sep="\t", float_precision="round_trip")
        got_d = pd.read_csv(dfp, sep="\t", float_precision="round_trip")
        if lower:
            # reported in the caller's orientation; the reference below works with higher-is-better values
            got_t["score"], got_d["score"] = -got_t["score"], -got_d["score"]
    # ---- reference ------------------------------------------------------------------------
    expected = {}
    shared_seen = False
    both_sides = False
    for r in rows:
        own = owner[r["stripped"]]
        if len(own) != 1:
            shared_seen = True
            continue
        gi, is_t = own[0]
        require(is_t == r["target"], "harness-label", "generator: peptide side and label disagree")
        cur = expected.get(gi)
        if cur is None or r["score"] > cur["score"]:
            expected[gi] = {**r, "gi": gi, "side": is_t}
    for gi in expected:
        sides = {owner[r["stripped"]][0][1] for r in rows if len(owner[r["stripped"]]) == 1 and owner[r["stripped"]][0][0] == gi}
        if len(sides) == 2:
            both_sides = True
    cols = ["mokapot protein group", "best peptide", "stripped sequence", "score", "q-value", "posterior_error_prob"]
    entries = []
    for f, is_t, name in ((got_t, True, "targets.proteins"), (got_d, False, "decoys.proteins")):
        require(list(f.columns) == cols, "columns", f"{name}: {list(f.columns)}")
        prev = None
        for d in f.to_dict("records"):
            require(isinstance(d["mokapot protein group"], str) and d["mokapot protein group"], "unknown-group",
                    f"{name}: an entry without protein group (best peptide {d.get('best peptide')!r}, score {d.get('score')})")
            members = frozenset(d["mokapot protein group"].split(", "))
            gi = [k for k, pr in enumerate(pairs) if members == (pr["t"] if is_t else pr["d"])]
            require(len(gi) == 1, "unknown-group", f"{name}: group '{d['mokapot protein group']}' is not a protein group of the database")
            entries.append({"gi": gi[0], "side": is_t, **d})
            if prev is not None:
                require(d["score"] <= prev, "not-sorted", name)
            prev = d["score"]
    by_pair = {}
    for e in entries:
        require(e["gi"] not in by_pair, "pair-split",
                f"protein pair {sorted(pairs[e['gi']]['t'])} has two entries: '{by_pair.get(e['gi'], {}).get('mokapot protein group')}' and '{e['mokapot protein group']}'")
        by_pair[e["gi"]] = e
    require(set(by_pair) == set(expected), "pair-set",
            f"pairs reported {sorted(by_pair)} != pairs with a retained unique peptide {sorted(expected)} "
            f"(missing {[sorted(pairs[g]['t']) for g in set(expected) - set(by_pair)][:2]}, extra {[sorted(pairs[g]['t']) for g in set(by_pair) - set(expected)][:2]})")
    for gi, exp in expected.items():
        e = by_pair[gi]
        require(e["side"] == exp["side"], "wrong-winner",
                f"pair {sorted(pairs[gi]['t'])}: entry is the {'target' if e['side'] else 'decoy'} group, but the best unique peptide {exp['dec']} "
                f"(score {exp['score']}) belongs to the {'target' if exp['side'] else 'decoy'} group")
        require(e["best peptide"] == exp["dec"], "wrong-peptide", f"pair {sorted(pairs[gi]['t'])}: best peptide {e['best peptide']} != {exp['dec']}")
        require(e["stripped sequence"] == exp["stripped"], "wrong-stripped", f"{e['stripped sequence']} != {exp['stripped']} for {exp['dec']}")
        require(abs(float(e["score"]) - exp["score"]) <= 1e-12 * max(1.0, abs(exp["score"])), "wrong-score", f"{e['score']} != {exp['score']}")
    order = sorted(expected)
    qref = dict(zip(order, tdc_ref([expected[g]["score"] for g in order], [expected[g]["side"] for g in order], True)))
    for gi in order:
        r = float(qref[gi])
        require(abs(float(by_pair[gi]["q-value"]) - r) <= 2.5e-7 * r + 1e-12, "protein-qvalue",
                f"pair {sorted(pairs[gi]['t'])}: q-value {by_pair[gi]['q-value']} != {qref[gi]} over the {len(order)} entries")
        pep = float(by_pair[gi]["posterior_error_prob"])
        require(abs(pep - float(config_inject.pep_stub([expected[gi]["score"]])[0])) <= 1e-9, "protein-pep", "PEP is not that of the entry's score")
    # ---- the picked-protein step called directly, on a peptide table that keeps the index labels of an earlier sort / filter
    from mokapot.picked_protein import picked_protein

    pep_df = pd.DataFrame({"target": [r["target"] for r in rows], "peptide": [r["dec"] for r in rows], "score": scores})
    ikind = case.get("direct_index", "default")
    if ikind == "sorted":
        pep_df = pep_df.sort_values("score", ascending=False)
    elif ikind == "reversed":
        pep_df = pep_df.iloc[::-1]
    elif ikind == "offset":
        pep_df.index = pep_df.index + 1000
    direct = guarded(picked_protein, pep_df, "target", "peptide", "score", prot, 1, sig="picked_protein")
    seen_pairs = {}
    for d in direct.to_dict("records"):
        members = frozenset(str(d["mokapot protein group"]).split(", "))
        is_t = bool(d["target"])
        gi = [k for k, pr in enumerate(pairs) if members == (pr["t"] if is_t else pr["d"])]
        require(len(gi) == 1, "direct-unknown-group", f"picked_protein (index {ikind}): group '{d['mokapot protein group']}' (target={is_t}) is not a protein group of the database")
        require(gi[0] not in seen_pairs, "direct-pair-split", f"picked_protein (index {ikind}): pair {sorted(pairs[gi[0]]['t'])} has two entries")
        seen_pairs[gi[0]] = d
    require(set(seen_pairs) == set(expected), "direct-pair-set",
            f"picked_protein (index {ikind}): pairs {sorted(seen_pairs)} != pairs with a retained unique peptide {sorted(expected)}")
    for gi, exp in expected.items():
        d = seen_pairs[gi]
        require(bool(d["target"]) == exp["side"] and d["best peptide"] == exp["dec"] and d["stripped sequence"] == exp["stripped"]
                and float(d["score"]) == exp["score"], "direct-wrong-entry",
                f"picked_protein (index {ikind}): pair {sorted(pairs[gi]['t'])}: entry ({d['best peptide']}, {d['score']}, target={d['target']}) "
                f"!= best unique peptide ({exp['dec']}, {exp['score']}, target={exp['side']})")
    classes = [case["route"], case.get("fmt", "tsv")]
    if ikind != "default":
        classes.append("direct-call-index-" + ikind)
    if case.get("lower"):
        classes.append("lower-is-better-scores")
    if case.get("reuse_proteins") and n >= 4:
        classes.append("proteins-object-served-another-table-before")
    if shared_seen:
        classes.append("shared-peptide-observed")
    if both_sides:
        classes.append("both-sides-compete")
    if any(len(pr["t"]) >= 3 for pr in pairs):
        classes.append("group>=3")
    if any(r["dec"] != r["stripped"] for r in rows):
        classes.append("decorated")
    if extra:
        classes.append("extra-levels:" + "+".join(extra))
    if dropped:
        classes.append("partial-decoys")
    return {"nontrivial": shared_seen and both_sides, "classes": classes, "counters": {"entries_checked": len(order)}}
