"""C16 - protein grouping is a maximal-subset grouping with a consistent peptide map."""

from __future__ import annotations

import itertools
import json
import os
import subprocess
import sys
from pathlib import Path

from hypothesis import strategies as st

from core import HARNESS, REPO, Violation, guarded, require, scratch_dir
from props.c17 import digest_ref

ID = "C16"
LEVEL = "exploration"
LEVEL_TEXT = (
    "All incidence matrices up to 3x3 (quick) / 4x4 (thorough) proteins x peptides in three entry orders satisfy the grouping predicates, exhaustively; larger random structures and re-reads under other hash seeds in addition."
)
TECHNIQUE = (
    "exhaustive enumeration of all small protein x peptide incidence matrices (rendered as FASTA) x entry orders, "
    "Hypothesis-generated larger structures with mirrored decoys and digest parameters, and re-reading batches in "
    "child interpreters with different PYTHONHASHSEED; oracle = maximal-subset grouping predicates on parsed member "
    "sets (from an independent digest) + order / hash-seed invariance"
)
RULE = (
    "case = incidence matrix (protein i contains constructed tryptic peptide j) + entry order + optional mirrored "
    "decoys + optional decoy-prefixed entries that share the targets' peptides + missed cleavages 0/1. Enumerated: all matrices up to 3x3 (quick) / 4x4 (thorough) x given and reversed "
    "order; random: up to 9 proteins x 9 peptides, drawn order. Each case is read in 3 entry orders in-process; "
    "batches are re-read under 2 other hash seeds. Non-trivial: some protein's peptide set is contained in another's "
    "(subset, equal sets, or contained in two different proteins). Distinct = distinct canonical JSON."
)
ASSUMPTIONS = [
    "protein names contain neither ', ' nor '; ' (the separators mokapot uses when it joins group and shared names)",
    "peptide sets per protein come from an independent digest reference (same as C17), not from mokapot",
]
TP = ["ACDEFK", "CDEFGK", "DEFGHK", "EFGHIK", "FGHILK", "GHILMK", "HILMNK", "ILMNPK", "LMNPQK"]
PREFIX = "decoy_"


def budget(tier):
    if tier == "quick":
        return {"examples": 1600, "shards": 16, "time_s": 60}
    return {"examples": 160000, "shards": 16, "time_s": 1500}


def _proteins(case):
    """[(name, sequence)] in the case's base order (targets then mirrored decoys)."""
    out = []
    names = case.get("names") or [f"P{i}" for i in range(len(case["matrix"]))]
    junk = case.get("junk")
    most = max(sum(r) for r in case["matrix"])
    for i, row in enumerate(case["matrix"]):
        seq = "".join(TP[j] for j, b in enumerate(row) if b)
        if junk == "pad" and seq:
            # residues that yield no peptide inside the length bounds (an uncleavable stretch longer than max_length):
            # the fewer peptides a protein has, the longer its sequence
            seq = "G" * (51 + 7 * (most - sum(row))) + "K" + seq
        elif isinstance(junk, list) and seq:
            j = junk[i % len(junk)]
            seq = (j + seq) if i % 2 else (seq + j)
        out.append((names[i], seq))
    if case.get("decoys") and not case.get("names"):  # mirrored decoys would collide with explicitly prefixed entries
        for i, row in enumerate(case["matrix"]):
            if names[i].startswith(PREFIX):
                continue
            seq = "".join(TP[j][:-1][::-1] + "K" for j, b in enumerate(row) if b)
            out.append((f"{PREFIX}{names[i]}", seq))
    return out


def _order(prots, kind, perm):
    if kind == "given":
        return list(prots)
    if kind == "reversed":
        return list(reversed(prots))
    idx = sorted(range(len(prots)), key=lambda i: (perm[i % len(perm)], i))
    return [prots[i] for i in idx]


def structure(prots, missed, tmp):
    """Run read_fasta on the given entry order; return a canonical description."""
    from mokapot.parsers.fasta import read_fasta

    path = Path(tmp) / "db.fasta"
    # history: another database was read from the same path before (per-path state must not leak)
    path.write_text(">OLD1 x\nQQQQQQQK\n>OLD2 x\nWWWWWWWKQQQQQQQK\n")
    try:
        read_fasta(str(path), min_length=6)
    except Exception:  # noqa: BLE001
        pass
    path.write_text("".join(f">{n} desc\n{s}\n" for n, s in prots))
    p = read_fasta(str(path), enzyme="[KR]", missed_cleavages=missed, min_length=6, max_length=50, decoy_prefix=PREFIX)
    groups_of = {}
    for pep, g in p.peptide_map.items():
        groups_of[pep] = [g]
    for pep, gs in p.shared_peptides.items():
        if pep in groups_of:
            raise Violation("unique-and-shared", f"peptide {pep} is recorded both as unique and as shared")
        groups_of[pep] = gs.split("; ")
    return {
        "groups_of": {pep: sorted(sorted(g.split(", ")) for g in gs) for pep, gs in groups_of.items()},
        "raw_groups_of": {pep: sorted(gs) for pep, gs in groups_of.items()},
        "unique": sorted(p.peptide_map),
        "protein_map": dict(p.protein_map),
        "has_decoys": bool(p.has_decoys),
    }


def canonical(struct):
    return json.dumps({"g": struct["groups_of"], "u": struct["unique"], "m": struct["protein_map"], "d": struct["has_decoys"]}, sort_keys=True)


def _validate(prots, missed, st_):
    S = {}
    for n, s in prots:
        req, _ = digest_ref(s, "[KR]", missed, 6, 50, False, False)
        if req:
            S[n] = req
    allpeps = set().union(*S.values()) if S else set()
    got = set(st_["groups_of"])
    require(got == allpeps, "peptide-set", f"peptides recorded {sorted(got ^ allpeps)[:4]} differ from the digest of the proteins")
    groups = {}
    for pep, gs in st_["groups_of"].items():
        require(len({tuple(g) for g in gs}) == len(gs), "group-listed-twice", f"{pep}: {gs}")
        for g in gs:
            groups.setdefault(tuple(g), set()).add(pep)
    member_sets = [frozenset(g) for g in groups]
    require(len(set(member_sets)) == len(member_sets), "duplicate-group", "two groups with the same members")
    for g, gpeps in groups.items():
        for m in g:
            require(m in S, "unknown-member", f"group {g} lists {m}, which is not a protein with peptides")
            require(S[m] <= gpeps, "member-not-covered", f"group {list(g)}: peptides of member {m} missing from the group's peptide set")
        require(len(set(g)) == len(g), "member-twice", str(g))
        union = set().union(*[S[m] for m in g])
        require(gpeps == union, "map-inconsistent",
                f"group {list(g)}: peptides mapped to the group {sorted(gpeps)} != peptides of its members {sorted(union)}")
        require(any(S[m] == gpeps for m in g), "no-representative", f"group {list(g)}: its peptide set is not that of any member")
    glist = list(groups.items())
    for (a, pa_), (b, pb) in itertools.permutations(glist, 2):
        require(not pa_ <= pb, "not-maximal", f"peptide set of group {list(a)} is contained in that of group {list(b)}")
    covered = set().union(*[set(g) for g in groups]) if groups else set()
    require(set(S) <= covered, "protein-ungrouped", f"proteins without group: {sorted(set(S) - covered)}")
    uniq = set(st_["unique"])
    for pep, gs in st_["groups_of"].items():
        require((pep in uniq) == (len(gs) == 1), "unique-shared", f"{pep}: in {len(gs)} groups, recorded unique={pep in uniq}")
    targets = [n for n in S if not n.startswith(PREFIX)]
    require(st_["protein_map"] == {t: PREFIX + t for t in targets}, "decoy-pairing",
            f"protein_map {st_['protein_map']} != targets paired with prefixed names {targets}")
    require(st_["has_decoys"] == any(PREFIX + t in S for t in targets), "has-decoys", str(st_["has_decoys"]))
    contained = any(S[a] <= S[b] for a in S for b in S if a != b)
    multi = any(sum(1 for b in S if a != b and S[a] < S[b] and not any(S[b] < S[c] for c in S)) >= 2 for a in S)
    equal = any(S[a] == S[b] for a in S for b in S if a < b)
    lens = dict(prots)
    longer = any(S[a] < S[b] and len(lens[a]) > len(lens[b]) for a in S for b in S if a != b)
    return contained, multi, equal, longer


def check(case):
    prots = _proteins(case)
    missed = case.get("missed", 0)
    if not any(s for n, s in prots if not n.startswith(PREFIX)):
        # no target protein yields a peptide: read_fasta rejects such a database by design
        return {"nontrivial": False, "classes": ["empty-db"]}
    with scratch_dir() as tmp:
        base = None
        info = None
        for kind in ("given", "reversed", "perm"):
            ordered = _order(prots, kind, case.get("perm", [0]))
            st_ = guarded(structure, ordered, missed, tmp, sig="read_fasta")
            info = _validate(ordered, missed, st_)
            c = canonical(st_)
            if base is None:
                base = c
            else:
                require(c == base, "order-dependent", f"grouping differs between entry orders given and {kind}: {base[:300]} vs {c[:300]}")
    if case.get("hash_seeds"):
        outs = {h: _child([case], h)[0] for h in case["hash_seeds"]}
        vals = list(outs.values())
        require(all(v == vals[0] for v in vals), "hash-seed-dependent",
                f"grouping differs between hash seeds {list(outs)}: {vals[0][:200]} vs {[v for v in vals if v != vals[0]][0][:200] if any(v != vals[0] for v in vals) else ''}")
    contained, multi, equal, _longer = info
    classes = []
    if contained:
        classes.append("subset")
    if multi:
        classes.append("contained-in-two-maximal")
    if equal:
        classes.append("equal-sets")
    if case.get("decoys"):
        classes.append("decoys")
    if case.get("names"):
        classes.append("prefixed-entries-sharing-target-peptides")
    if missed:
        classes.append("missed-cleavage")
    if case.get("junk"):
        classes.append("residues-without-peptides")
        classes += ["subset-protein-longer-than-superset"] if info[3] else []
    return {"nontrivial": contained, "classes": classes, "counters": {"fasta_reads": 3}}


def enumerate_cases(tier):
    nmax = 3 if tier == "quick" else 4
    for np_ in range(1, nmax + 1):
        for nq in range(1, nmax + 1):
            for bits in itertools.product((0, 1), repeat=np_ * nq):
                m = [list(bits[i * nq:(i + 1) * nq]) for i in range(np_)]
                yield {"matrix": m, "decoys": False, "missed": 0, "perm": [2, 0, 3, 1]}
                if np_ >= 2:
                    yield {"matrix": m, "decoys": False, "missed": 0, "perm": [2, 0, 3, 1], "junk": "pad"}
                if np_ >= 2:
                    # the last entry carries the decoy prefix but shares the targets' peptide universe
                    yield {"matrix": m, "decoys": False, "missed": 0, "perm": [2, 0, 3, 1],
                           "names": [f"P{i}" for i in range(np_ - 1)] + [PREFIX + "P0"]}


def exhaustive_claim(tier):
    n = 3 if tier == "quick" else 4
    return f"all incidence matrices up to {n} proteins x {n} peptides x entry orders given/reversed/one permutation"


@st.composite
def _case(draw, tier):
    np_ = draw(st.integers(2, 9))
    nq = draw(st.integers(1, 9))
    style = draw(st.sampled_from(["free", "chains", "chains"]))
    rows = []
    for i in range(np_):
        if style == "chains" and rows and draw(st.booleans()):
            # derive from an earlier row: subset, equal or superset => containment structures
            src = rows[draw(st.integers(0, len(rows) - 1))]
            mask = draw(st.lists(st.booleans(), min_size=nq, max_size=nq))
            rows.append([int(a and b) for a, b in zip(src, mask)] if draw(st.booleans()) else list(src))
        else:
            rows.append([int(x) for x in draw(st.lists(st.booleans(), min_size=nq, max_size=nq))])
    names = None
    if draw(st.booleans()):
        # some entries carry the decoy prefix while sharing peptides with targets (shuffled decoys can collide with targets)
        names, k = [], 0
        for i in range(np_):
            if i >= 1 and k < i and draw(st.integers(0, 2)) == 0:
                names.append(f"{PREFIX}P{k}")
                k += 1
            else:
                names.append(f"P{i}")
        if len(set(names)) != len(names) or not any(not n.startswith(PREFIX) for n in names):
            names = None
    # residues that produce no peptide of their own inside the length bounds: short fragments, an over-long uncleavable stretch
    junk = draw(st.sampled_from([None, None, "pad", "list"]))
    if junk == "list":
        junk = draw(st.lists(st.sampled_from(["", "AAK", "AK", "SSSSK", "G" * 55 + "K", "G" * 70 + "K", "TTTTT"]), min_size=1, max_size=5))
    return {"matrix": rows, "decoys": draw(st.booleans()), "missed": draw(st.sampled_from([0, 0, 1])),
            "perm": draw(st.lists(st.integers(0, 20), min_size=1, max_size=12)), "names": names, "junk": junk}


def strategy(tier):
    return _case(tier)


# ---------------------------------------------------------------------------
def child_main():
    """Run in a child interpreter with another PYTHONHASHSEED: stdin = JSON list of cases, stdout = canonical structures."""
    import core

    core.bootstrap()
    cases = json.loads(sys.stdin.read())
    out = []
    with scratch_dir() as tmp:
        for case in cases:
            prots = _proteins(case)
            try:
                out.append(canonical(structure(prots, case.get("missed", 0), tmp)))
            except Exception as e:  # noqa: BLE001
                out.append("ERR " + type(e).__name__)
    sys.stdout.write(json.dumps(out))


def _child(batch, h):
    env = dict(os.environ)
    env["PYTHONHASHSEED"] = str(h)
    env["VERIF_REPO"] = REPO
    code = "import sys; sys.path.insert(0, %r); import core; core.bootstrap(); from props import c16; c16.child_main()" % str(HARNESS)
    p = subprocess.run([sys.executable, "-c", code], input=json.dumps(batch), capture_output=True, text=True, env=env, timeout=900)
    if p.returncode != 0:
        raise RuntimeError("child interpreter failed: " + p.stderr[-800:])
    return json.loads(p.stdout)


def extra(tier, seed, shard, nshards, stats):
    """Hash-seed invariance: re-read a batch of containment-rich cases in fresh interpreters."""
    import random

    rnd = random.Random(seed * 7919 + shard)  # batch selection only; derived from VERIF_SEED
    batch = []
    nb = 40 if tier == "quick" else 1500
    while len(batch) < nb:
        np_, nq = rnd.randint(3, 7), rnd.randint(2, 6)
        rows = []
        for i in range(np_):
            if rows and rnd.random() < 0.6:
                src = rnd.choice(rows)
                rows.append([a & rnd.randint(0, 1) for a in src] if rnd.random() < 0.7 else list(src))
            else:
                rows.append([rnd.randint(0, 1) for _ in range(nq)])
        if any(any(r) for r in rows):
            batch.append({"matrix": rows, "decoys": rnd.random() < 0.5, "missed": 0})
    with scratch_dir() as tmp:
        here = []
        for case in batch:
            try:
                here.append(canonical(structure(_proteins(case), 0, tmp)))
            except Exception as e:  # noqa: BLE001
                here.append("ERR " + type(e).__name__)
    hseeds = [1 + (seed + shard) % 97, 1000 + shard] if tier == "quick" else [1 + (seed + shard) % 97, 1000 + shard, 31337, 4242 + shard]
    for h in hseeds:
        there = _child(batch, h)
        for case, a, b in zip(batch, here, there):
            stats.evaluations += 1
            stats.counters["hash_seed_rereads"] += 1
            if a != b:
                stats.failure = {"case": {**case, "perm": [0], "hash_seeds": [int(os.environ.get("PYTHONHASHSEED", "0") or 0), h]},
                                 "signature": "hash-seed-dependent",
                                 "message": f"grouping differs between PYTHONHASHSEED={os.environ.get('PYTHONHASHSEED')} and {h}: {a[:300]} vs {b[:300]}"}
                return
            stats.observe({**case, "hash_seed": h}, {"nontrivial": True, "classes": ["hash-seed-reread"]})
