"""C17 - in-silico digestion returns exactly the peptides the enzyme rules allow."""

from __future__ import annotations

import itertools
import re

from hypothesis import strategies as st

from core import guarded, require

ID = "C17"
LEVEL = "exploration"
LEVEL_TEXT = (
    "Two-sided agreement (required <= digest <= allowed) with an independent reference on every sequence over a small alphabet up to length 6 (quick) / 10-11 (thorough) x patterns x a 192-point parameter grid, exhaustively, plus random long sequences."
)
TECHNIQUE = (
    "exhaustive enumeration of all sequences over a small alphabet x enzyme patterns x a parameter grid, plus "
    "Hypothesis-generated long sequences, against an independent set-builder reference (two-sided: required <= "
    "digest <= allowed), monotonicity and substring checks"
)
RULE = (
    "enumerated case = (sequence, pattern); each case sweeps the grid missed 0-3 x min 1-4 x max {min, 4|6, 50} x clip x "
    "semi. quick: all sequences over {K,P,M,A} of length 1-6 x 4 patterns; thorough: all sequences over {K,P,A} with "
    "optional leading M up to length 10 x 5 patterns. Random case = sequence up to length 120 over 20 residues x "
    "drawn pattern and parameters, half of them also through read_fasta (a four-entry database built around the sequence; "
    "unique + shared peptides = union of the entries' digests). Non-trivial: >=2 cleavage sites inside the sequence or a match ending at the last "
    "residue or a leading M with clip. Distinct = distinct (sequence, pattern, parameters)."
)
ASSUMPTIONS = [
    "min_length >= 1 (with 0 the empty fragment after a terminal cleavage residue would be a 'peptide'; no caller passes 0)",
    "semi fragments of clipped N-terminal forms are allowed but not required (the statement leaves this open)",
    "cleavage site = end of a regex match, as documented for read_fasta",
]
PATTERNS = ["[KR]", "[KR](?!P)", "K", "(?<=[KR])(?!P)", "[FWY]", "KP|K",
            # N-terminally cutting rules written as a pure look-ahead (Lys-N / Arg-N style; a zero-width match at position 0
            # when the sequence starts with the residue)
            "(?=[KR])", "(?=[KM])"]


def budget(tier):
    if tier == "quick":
        return {"examples": 9600, "shards": 16, "time_s": 60}
    return {"examples": 200000, "shards": 16, "time_s": 1500}


def digest_ref(seq, pattern, missed, min_len, max_len, clip, semi):
    n = len(seq)
    pos = sorted({0, n} | {m.end() for m in re.finditer(pattern, seq)})
    enz, nterm = set(), set()
    for i in range(len(pos)):
        for j in range(i + 1, min(len(pos), i + missed + 2)):
            p = seq[pos[i]:pos[j]]
            if p and min_len <= len(p) <= max_len:
                enz.add(p)
                if pos[i] == 0:
                    nterm.add(p)
    clipped = set()
    if clip:
        for p in nterm:
            if p.startswith("M") and len(p) - 1 >= min_len:
                clipped.add(p[1:])
    required = set(enz) | clipped
    allowed = set(required)
    if semi:
        for p in enz:
            for k in range(1, len(p)):
                if len(p) - k >= min_len:
                    required.add(p[k:])
                    required.add(p[:-k])
        allowed |= required
        for p in clipped:
            for k in range(1, len(p)):
                if len(p) - k >= min_len:
                    allowed.add(p[k:])
                    allowed.add(p[:-k])
    return required, allowed


def _grid(tier_max):
    for missed in (0, 1, 2, 3):
        for mn in (1, 2, 3, 4):
            for mx in sorted({mn, tier_max, 50}):
                if mx < mn:
                    continue
                for clip in (False, True):
                    for semi in (False, True):
                        yield missed, mn, mx, clip, semi


def _enzyme(pat, k):
    """The same enzyme rule spelled four ways: pattern text, compiled, compiled with flags that carry meaning
    (verbose spelling with a comment; lower-case spelling that ignores case). The reference always uses the plain text."""
    k %= 4
    if k == 0:
        return pat
    if k == 1:
        return re.compile(pat)
    if k == 2:
        return re.compile(pat + "   # cleavage rule", re.VERBOSE)
    return re.compile(pat.lower(), re.IGNORECASE)


def _check_one(fasta, seq, pat, missed, mn, mx, clip, semi):
    # alternate between the pattern string and compiled patterns (both are documented)
    enz = _enzyme(pat, len(seq) + missed + mn)
    got = guarded(fasta.digest, seq, enzyme_regex=enz, missed_cleavages=missed, clip_nterm_methionine=clip,
                  min_length=mn, max_length=mx, semi=semi, sig="digest")
    require(isinstance(got, set), "type", f"digest returned {type(got)}")
    req, allowed = digest_ref(seq, pat, missed, mn, mx, clip, semi)
    par = f"seq={seq!r} enzyme={pat!r} missed={missed} min={mn} max={mx} clip={clip} semi={semi}"
    missing = req - got
    require(not missing, "peptide-missing", f"{par}: missing {sorted(missing)[:5]}")
    extra = got - allowed
    require(not extra, "peptide-not-allowed", f"{par}: not allowed by the enzyme rules {sorted(extra)[:5]}")
    for p in got:
        require(p in seq and len(p) >= 1, "not-substring", f"{par}: {p!r}")
    return got


def _check_read_fasta(fasta, case, direct):
    """The FASTA entry point digests with the same options: the peptides it knows (unique or shared) for a database made
    of this sequence, a second protein and their reversed decoys are exactly the digests of those sequences."""
    from core import scratch_dir

    seq, pat = case["seq"], case["pat"]
    missed, mn, mx, clip, semi = case["missed"], case["min"], case["max"], case["clip"], case["semi"]
    other = seq[len(seq) // 2:] + "GASTK" + seq[:len(seq) // 3]
    entries = [("sp|T1|FIRST", seq), ("sp|T2|SECOND", other), ("decoy_sp|T1|FIRST", seq[::-1]), ("decoy_sp|T2|SECOND", other[::-1])]
    if mn >= 2:
        # a tiny entry that is a single peptide of exactly the minimal length and starts with M (a small ORF)
        tiny = "M" + "W" * (mn - 1)
        entries += [("sp|T3|TINY", tiny), ("decoy_sp|T3|TINY", "M" + "Y" * (mn - 1))]
    req, allowed = set(), set()
    for _, sq in entries:
        r, a = digest_ref(sq, pat, missed, mn, mx, clip, semi)
        req |= r
        allowed |= a
    if not any(digest_ref(sq, pat, missed, mn, mx, clip, semi)[0] for _, sq in entries[:2]):
        return 0  # no target yields a peptide: read_fasta has nothing to report
    with scratch_dir() as tmp:
        path = tmp / "db.fasta"
        path.write_text("".join(f">{n} descr\n" + "\n".join(sq[i:i + 60] for i in range(0, len(sq), 60)) + "\n" for n, sq in entries))
        prot = guarded(fasta.read_fasta, str(path), enzyme=_enzyme(pat, len(seq)), missed_cleavages=missed,
                       clip_nterm_methionine=clip, min_length=mn, max_length=mx, semi=semi, decoy_prefix="decoy_", sig="read_fasta")
    got = set(prot.peptide_map) | set(prot.shared_peptides)
    par = f"read_fasta seq={seq!r} enzyme={pat!r} missed={missed} min={mn} max={mx} clip={clip} semi={semi}"
    missing = req - got
    require(not missing, "peptide-missing", f"{par}: database lacks {sorted(missing)[:5]} ({len(missing)} in all)")
    extra = got - allowed
    require(not extra, "peptide-not-allowed", f"{par}: database holds {sorted(extra)[:5]}")
    require(direct <= got, "peptide-missing", f"{par}: peptides returned by digest() are not in the database: {sorted(direct - got)[:5]}")
    return 1


def check(case):
    from mokapot.parsers import fasta

    seq, pat = case["seq"], case["pat"]
    ndig = 0
    if case.get("mode") == "grid":
        res = {}
        for missed, mn, mx, clip, semi in _grid(case["gmax"]):
            res[(missed, mn, mx, clip, semi)] = _check_one(fasta, seq, pat, missed, mn, mx, clip, semi)
            ndig += 1
        # the caller owns the returned sets: using one up must not change what a later identical request returns
        key0 = sorted(res)[len(seq) % len(res)]
        first = set(res[key0])
        res[key0].clear()
        res[key0] = _check_one(fasta, seq, pat, *key0)
        require(res[key0] == first, "repeat-call-differs", f"seq={seq!r} enzyme={pat!r} {key0}: second identical digest differs after the first result was consumed")
        # monotonicity
        for (missed, mn, mx, clip, semi), g in res.items():
            par = f"seq={seq!r} enzyme={pat!r} missed={missed} min={mn} max={mx} clip={clip} semi={semi}"
            if (missed + 1, mn, mx, clip, semi) in res:
                require(g <= res[(missed + 1, mn, mx, clip, semi)], "monotone-missed", f"{par}: result shrinks with one more missed cleavage: lost {sorted(g - res[(missed + 1, mn, mx, clip, semi)])[:4]}")
            if (missed, mn + 1, mx, clip, semi) in res:
                require(res[(missed, mn + 1, mx, clip, semi)] <= g, "monotone-min", f"{par}: raising min_length adds peptides")
            if not semi:
                require(g <= res[(missed, mn, mx, clip, True)], "monotone-semi", f"{par}: semi loses {sorted(g - res[(missed, mn, mx, clip, True)])[:4]}")
            for mx2 in (case["gmax"], 50):
                if mx2 > mx and (missed, mn, mx2, clip, semi) in res:
                    require(g <= res[(missed, mn, mx2, clip, semi)], "monotone-max", f"{par}: widening max_length to {mx2} loses peptides")
    else:
        missed, mn, mx, clip, semi = case["missed"], case["min"], case["max"], case["clip"], case["semi"]
        g = _check_one(fasta, seq, pat, missed, mn, mx, clip, semi)
        # the caller owns the returned set: using it up must not change what a later identical request returns
        g_first = set(g)
        g.clear()
        g.add("#consumed")
        g = _check_one(fasta, seq, pat, missed, mn, mx, clip, semi)
        require(g == g_first, "repeat-call-differs", f"seq={seq!r} enzyme={pat!r}: second identical digest differs after the first result was consumed: {sorted(g ^ g_first)[:5]}")
        g2 = _check_one(fasta, seq, pat, missed + 1, mn, mx, clip, semi)
        require(g <= g2, "monotone-missed", f"seq={seq!r} enzyme={pat!r} missed={missed}: result shrinks with one more missed cleavage")
        g3 = _check_one(fasta, seq, pat, missed, mn, mx + 7, clip, semi)
        require(g <= g3, "monotone-max", f"seq={seq!r}: widening max_length loses peptides")
        if not semi:
            g4 = _check_one(fasta, seq, pat, missed, mn, mx, clip, True)
            require(g <= g4, "monotone-semi", f"seq={seq!r}: semi loses peptides")
        ndig = 3
        if case.get("via_fasta"):
            ndig += _check_read_fasta(fasta, case, g)
    ends = [m.end() for m in re.finditer(pat, seq)]
    inner = [e for e in ends if 0 < e < len(seq)]
    classes = [pat]
    if len(seq) in ends:
        classes.append("match-at-last-residue")
    if seq.startswith("M"):
        classes.append("leading-M")
    if 0 in ends:
        classes.append("match-at-start")
    if case.get("via_fasta"):
        classes.append("via-read_fasta")
    nontrivial = len(inner) >= 2 or len(seq) in ends or seq.startswith("M")
    return {"nontrivial": nontrivial, "classes": classes, "counters": {"digests_compared": ndig}}


def enumerate_cases(tier):
    if tier == "quick":
        alpha, maxlen, pats, gmax, lead = "KPMA", 6, PATTERNS[:3] + ["(?=[KM])"], 4, [""]
    else:
        alpha, maxlen, pats, gmax, lead = "KPA", 10, PATTERNS[:4] + ["(?=[KM])"], 6, ["", "M"]
    for L in range(1, maxlen + 1):
        for tup in itertools.product(alpha, repeat=L):
            s = "".join(tup)
            for ld in lead:
                for pat in pats:
                    yield {"seq": ld + s, "pat": pat, "mode": "grid", "gmax": gmax}


def exhaustive_claim(tier):
    if tier == "quick":
        return "all sequences over {K,P,M,A} of length 1-6 x patterns [KR], [KR](?!P), K, (?=[KM]) x grid missed 0-3 x min 1-4 x max {min,4,50} x clip x semi"
    return "all sequences over {K,P,A} (optionally with leading M) of length 1-10(11) x 5 patterns x grid missed 0-3 x min 1-4 x max {min,6,50} x clip x semi"


AA20 = "ACDEFGHIKLMNPQRSTVWY"


@st.composite
def _case(draw, tier):
    style = draw(st.sampled_from(["rich", "rich", "uniform"]))
    alpha = "KRPMAG" if style == "rich" else AA20
    n = draw(st.integers(1, 120))
    seq = "".join(draw(st.lists(st.sampled_from(alpha), min_size=n, max_size=n)))
    if draw(st.booleans()):
        seq = "M" + seq
    mn = draw(st.integers(1, 8))
    return {
        "seq": seq,
        "pat": draw(st.sampled_from(PATTERNS)),
        "mode": "single",
        "missed": draw(st.integers(0, 3)),
        "min": mn,
        "max": draw(st.integers(mn, mn + 45)),
        "clip": draw(st.booleans()),
        "semi": draw(st.booleans()),
        "via_fasta": draw(st.sampled_from([False, True])),
    }


def strategy(tier):
    return _case(tier)
