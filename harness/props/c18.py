"""C18 - generated decoys preserve length, composition and cleavage structure."""

from __future__ import annotations

import re
from collections import Counter

import numpy as np
from hypothesis import strategies as st

from core import guarded, require, scratch_dir

ID = "C18"
LEVEL = "exploration"
TECHNIQUE = (
    "Hypothesis-generated FASTA texts (multi-line records, several files, empty and site-free sequences, many "
    "entries) x shuffle/reverse x concatenate x RNG seeds; oracle = own FASTA reader + own cleavage-site finder: "
    "names, per-peptide composition, fixed termini, exact reversal, site equality, target block, file round trip"
)
RULE = (
    "case = 1-3 FASTA files with 1-40 (or 450-1300 small) records '>name description' (every third description holds a '>' itself), sequences of 0-200 residues "
    "wrapped at a drawn width, with/without final newline, enzyme in {[KR], K, [FWY], [KR](?!P), (?=K), (?=[DE])}, reverse or shuffle, "
    "concatenate on/off, numpy global seed, optionally repeated accessions or input entries that already carry the decoy prefix; every case is preceded by a call with the opposite mode (history), half of them writing to the very output path; in 3 of 7 cases the output path is one of the input files (decoys added in place). "
    "Non-trivial: >=1 protein with >=2 enzymatic peptides of interior length >=2. Distinct = distinct canonical JSON."
)
ASSUMPTIONS = [
    "sequences consist of letters (and '*'), no white space; record names contain no blanks (they may repeat, and an "
    "input entry may already carry the decoy prefix: entries are compared by position, one decoy per input entry)",
    "for look-ahead enzymes only names, length, composition, termini of the target's peptides and round trip are "
    "required (site equality is stated for residue-class enzymes)",
]
ENZYMES = ["[KR]", "K", "[FWY]", "[KR](?!P)",
           # N-terminally cutting enzymes written as a pure look-ahead (Lys-N, Asp-N): a zero-width match at position 0 when the
           # protein starts with the residue
           "(?=K)", "(?=[DE])"]
AA = "ACDEFGHIKLMNPQRSTVWY"


def budget(tier):
    if tier == "quick":
        return {"examples": 8000, "shards": 16, "time_s": 60}
    return {"examples": 160000, "shards": 16, "time_s": 1500}


@st.composite
def _case(draw, tier):
    nfiles = draw(st.sampled_from([1, 1, 2, 3]))
    many = draw(st.integers(0, 9)) == 0
    files = []
    for fi in range(nfiles):
        nrec = draw(st.integers(510, 1300)) if (many and fi == 0) else draw(st.integers(1, 40 if tier != "quick" else 12))
        files.append({"nrec": nrec, "width": draw(st.sampled_from([60, 70, 71, 80, 10, 1000])),
                      "final_newline": draw(st.booleans()), "desc": draw(st.booleans())})
    return {
        "seed": draw(st.integers(0, 2**31 - 1)),
        "files": files,
        "many": many,
        "maxlen": 30 if many else draw(st.sampled_from([8, 40, 200, 200, 200, 6000])),
        "enzyme": draw(st.sampled_from(ENZYMES)),
        "reverse": draw(st.booleans()),
        "concatenate": draw(st.booleans()),
        "prefix": draw(st.sampled_from(["decoy_", "rev_", "DECOY-"])),
        "np_seed": draw(st.integers(0, 2**31 - 1)),
        "rich": draw(st.booleans()),
        "dup": draw(st.sampled_from([0, 0, 0, 1, 2])),
        # soft-masked databases: stretches of lower-case residues (they are residues like any other: reproduced as they are)
        "softmask": draw(st.sampled_from([False, False, True])),
        # decoys added in place: the output path is one of the input files (everything is read before anything is written)
        "inplace": draw(st.sampled_from([None, None, None, None, 0, 1, 2])),
    }


def strategy(tier):
    return _case(tier)


def _read_fasta(text):
    """Own minimal FASTA reader: [(name, sequence)]"""
    out = []
    name, seq = None, []
    for line in text.split("\n"):
        if line.startswith(">"):
            if name is not None:
                out.append((name, "".join(seq)))
            name, seq = line[1:].split(" ")[0], []
        elif name is not None:
            seq.append(line.strip())
    if name is not None:
        out.append((name, "".join(seq)))
    return out


def _sites(seq, pat):
    return sorted({0, len(seq)} | {m.end() for m in re.finditer(pat, seq)})


def check(case):
    from mokapot.parsers import fasta as mf

    rng = np.random.default_rng(case["seed"])
    mrng = np.random.default_rng(case["seed"] ^ 0x50F7)
    alpha = "KRPAGM" if case["rich"] else AA
    targets = []
    ndup = 0
    with scratch_dir() as tmp:
        paths = []
        k = 0
        for fi, f in enumerate(case["files"]):
            lines = []
            for r in range(f["nrec"]):
                L = int(rng.integers(0, case["maxlen"] + 1))
                if rng.random() < 0.08:
                    L = 0
                seq = "".join(alpha[int(i)] for i in rng.integers(0, len(alpha), L))
                if L and rng.random() < 0.1:
                    seq = seq[:-1] + "*"
                if case.get("softmask") and L and mrng.random() < 0.5:
                    a_ = int(mrng.integers(0, L))
                    b_ = int(mrng.integers(a_, L + 1)) if mrng.random() < 0.8 else L
                    seq = seq[:a_] + seq[a_:b_].lower() + seq[b_:]
                name = f"sp|P{k:05d}|PROT{k}"
                k += 1
                dup = case.get("dup", 0)
                if dup and targets and rng.random() < 0.25:
                    # the same accession listed again (another file / an isoform), or an input entry that already
                    # carries the decoy prefix of an earlier entry: every entry is still one entry
                    other = targets[int(rng.integers(0, len(targets)))][0]
                    name = other if dup == 1 else case["prefix"] + other.replace(case["prefix"], "")
                    ndup += 1
                targets.append((name, seq))
                descr = " some description OS=Homo sapiens" if k % 3 else " merged entry >gi|77|ref|NP_1.1| other protein, A->G variant"
                hdr = ">" + name + (descr if f["desc"] else "")
                lines.append(hdr)
                for a in range(0, len(seq), f["width"]):
                    lines.append(seq[a:a + f["width"]])
            text = "\n".join(lines) + ("\n" if f["final_newline"] else "")
            p = tmp / f"db{fi}.fasta"
            p.write_text(text)
            paths.append(str(p))
        inplace = case.get("inplace")
        out = tmp / "out.fasta" if inplace is None else tmp / f"db{inplace % len(paths)}.fasta"
        # history: an earlier call in the same process with the opposite mode must not influence this one
        pre = tmp / "db0.fasta"  # same path as the first input file: it is overwritten with the real content below
        real0 = pre.read_text()
        pre.write_text(">pre1\nMAAAGGGPPPKAGPMAGPMRGGAPMAPG\n>pre2\nAGPMAGK\n")
        np.random.seed(case["np_seed"] ^ 0x5A5A)
        # ... and it wrote to the same output path (a regenerated decoy file replaces the earlier one)
        guarded(mf.make_decoys, str(pre), str(out if (case["np_seed"] % 2 == 0 and inplace is None) else tmp / "pre_out.fasta"), enzyme=case["enzyme"],
                reverse=not case["reverse"], concatenate=not case["concatenate"], sig="make_decoys")
        pre.write_text(real0)
        np.random.seed(case["np_seed"])
        ret = guarded(mf.make_decoys, paths if len(paths) > 1 else paths[0], str(out), decoy_prefix=case["prefix"],
                      enzyme=(re.compile(case["enzyme"]) if case["seed"] % 2 else case["enzyme"]), reverse=case["reverse"],
                      concatenate=case["concatenate"], sig="make_decoys")
        text = out.read_text()
        got = _read_fasta(text)
        # mokapot's own reader must recover the same entries (round trip)
        again = [mf._parse_protein(e) for e in mf._parse_fasta_files(str(out))]
    n = len(targets)
    exp_n = 2 * n if case["concatenate"] else n
    require(len(got) == exp_n, "entry-count", f"{len(got)} entries written for {n} targets (concatenate={case['concatenate']})")
    require([tuple(x) for x in again] == got, "round-trip", "re-reading the written file with mokapot's reader gives other names/sequences")
    if case["concatenate"]:
        for i, (t, g) in enumerate(zip(targets, got[:n])):
            require(t == g, "targets-changed", f"target entry {i}: {g[0]} / len {len(g[1])} differs from input {t[0]} / len {len(t[1])}")
        decoys = got[n:]
    else:
        decoys = got
    pat = case["enzyme"]
    residue_class = "(?" not in pat
    rich_prot = False
    npep = 0
    for (tname, tseq), (dname, dseq) in zip(targets, decoys):
        require(dname == case["prefix"] + tname, "decoy-name", f"{dname} != {case['prefix'] + tname}")
        require(len(dseq) == len(tseq), "length", f"{dname}: length {len(dseq)} != {len(tseq)}")
        require(Counter(dseq) == Counter(tseq), "composition", f"{dname}: residue composition differs")
        sites = _sites(tseq, pat)
        if residue_class:
            require(_sites(dseq, pat) == sites, "cleavage-sites", f"{dname}: cleavage sites {_sites(dseq, pat)[:8]} != target's {sites[:8]}")
        long_peps = 0
        for a, b in zip(sites, sites[1:]):
            tp, dp = tseq[a:b], dseq[a:b]
            if not tp:
                continue
            npep += 1
            require(dp[0] == tp[0] and dp[-1] == tp[-1], "termini-moved", f"{dname}: peptide {tp} -> {dp}")
            require(Counter(dp) == Counter(tp), "peptide-composition", f"{dname}: peptide {tp} -> {dp}")
            if case["reverse"]:
                require(dp == tp[0] + tp[1:-1][::-1] + tp[-1] if len(tp) >= 2 else dp == tp, "not-reversed",
                        f"{dname}: peptide {tp} -> {dp}, interior is not the exact reversal")
            if len(tp) >= 4:
                long_peps += 1
        if long_peps >= 2:
            rich_prot = True
    classes = [pat, "reverse" if case["reverse"] else "shuffle", "concat" if case["concatenate"] else "decoys-only"]
    if case["many"]:
        classes.append(">1000-entries" if exp_n > 1000 else "many")
    if len(case["files"]) > 1:
        classes.append("multi-file")
    if any(s == "" for _, s in targets):
        classes.append("empty-sequence")
    if inplace is not None:
        classes.append("output-path-is-an-input-file")
    elif case["np_seed"] % 2 == 0:
        classes.append("output-path-held-an-earlier-result")
    if ndup:
        classes.append("repeated-accession" if case.get("dup") == 1 else "input-entry-with-decoy-prefix")
    if case.get("softmask") and any(q != q.upper() for _, q in targets):
        classes.append("lower-case-residues")
    return {"nontrivial": rich_prot, "classes": classes, "counters": {"proteins": n, "peptides_checked": npep}}
