"""C19 - PIN to rectangular-TSV conversion is lossless, order-preserving and idempotent."""

from __future__ import annotations

import json
import os
import subprocess
import sys
import tempfile
from io import StringIO
from pathlib import Path

from hypothesis import strategies as st

from core import scratch_dir as core_scratch

from core import HARNESS, REPO, VERIF, Violation, guarded, require

ID = "C19"
LEVEL = "exploration"
LEVEL_TEXT = (
    "Field-level agreement with a reference conversion on every generated PIN text; the thorough tier adds coverage-guided atheris campaigns with the same oracle inside the target."
)
TECHNIQUE = (
    "Hypothesis-generated PIN texts from a grammar against a field-level reference conversion (losslessness, "
    "validity predicate, idempotence); thorough tier adds an atheris coverage-guided campaign whose target decodes "
    "bytes into the same structure and applies the same oracle"
)
RULE = (
    "case = header SpecId Label ScanNr f1..fN Peptide (features may follow the peptide column; a third of the feature names resemble 'Proteins': numProteins, proteins, Proteins2, ...) with the Proteins column last or at a drawn position (N 0-8), "
    "1-12 PSM rows of non-empty blank-free tokens (one case in 16 cycles them up to a row count at or next to 64..10000, powers of two included), 1-5 proteins per row, default or custom protein separator, optional DefaultDirection second line with a "
    "drawn field count, with/without final newline. Non-trivial: some row has >=2 proteins and (the Proteins column is "
    "not last or a DefaultDirection line is present or the final newline is missing). One case in 8 is a command-line "
    "history: 1-3 such files (ragged / with DefaultDirection / already rectangular, any order) given to mokapot.mokapot.main, "
    "which is stopped after its verify step; optionally a non-empty <pin>.tsv lies next to one input. Distinct = distinct canonical JSON."
)
ASSUMPTIONS = [
    "fields are non-empty and free of tab, newline and leading/trailing blanks (the converter strips lines)",
    "at least one PSM row; the first field of a PSM row does not start with 'DefaultDirection'",
    "the header names the protein column exactly 'Proteins'",
]
TOKEN_ALPHABET = "abcXYZ019_|.-[]+:;,/#=@\"'"


def budget(tier):
    if tier == "quick":
        return {"examples": 16000, "shards": 16, "time_s": 60}
    return {"examples": 400000, "shards": 16, "time_s": 1500, "hard_s": 3600}


token = st.text(alphabet=TOKEN_ALPHABET, min_size=1, max_size=8)
LOOKALIKE = ["numProteins", "lnNumProteins", "proteins", "PROTEINS", "Proteins2", "ProteinsShared", "nProteins", "Protein", "xProteins"]
# characters that str.splitlines() (but not line-wise reading of a text file) treats as line boundaries; only *inside* a field,
# never at its ends (str.strip() would take them for blanks there)
EXOTIC = "\x0b\x0c\x1c\x1d\x1e\x85\u2028\u2029"
exotic_token = st.tuples(st.text(alphabet="abcXYZ019", min_size=1, max_size=3), st.sampled_from(EXOTIC),
                         st.text(alphabet="abcXYZ019", min_size=1, max_size=3)).map("".join)
field = st.one_of(token, token, token, token, token, token, token, exotic_token)


@st.composite
def _case(draw, tier):
    nfeat = draw(st.integers(0, 8))
    # feature names: arbitrary tokens, and names that merely resemble the protein column's ("Proteins" is matched exactly)
    feats = draw(st.lists(st.one_of(token.filter(lambda t: t != "Proteins"), token.filter(lambda t: t != "Proteins"),
                                    st.sampled_from(LOOKALIKE)), min_size=nfeat, max_size=nfeat))
    kpep = nfeat if draw(st.booleans()) else draw(st.integers(0, nfeat))  # the peptide column need not be the last one
    base = ["SpecId", "Label", "ScanNr"] + feats[:kpep] + ["Peptide"] + feats[kpep:]
    pos = len(base) if draw(st.integers(0, 2)) else draw(st.integers(0, len(base)))
    nrows = draw(st.integers(1, 12))
    rows = []
    for _ in range(nrows):
        fields = draw(st.lists(field, min_size=len(base), max_size=len(base)))
        nprot = draw(st.sampled_from([1, 1, 1, 2, 3, 5]))
        rows.append({"fields": fields, "proteins": draw(st.lists(field, min_size=nprot, max_size=nprot))})
    dd = None
    if draw(st.integers(0, 3)) == 0:
        ndd = draw(st.sampled_from([len(base) + 1, len(base) + 1, 2, len(base) + 3, 1]))
        dd = ["DefaultDirection"] + draw(st.lists(token, min_size=ndd - 1, max_size=ndd - 1))
    # long files: the drawn rows are cycled up to a row count at or next to a typical buffer size
    big = None
    if draw(st.integers(0, 15)) == 0:
        b = draw(st.sampled_from([64, 100, 128, 256, 500, 512, 1000, 1024, 2048, 4096, 5000, 8192, 10000] if tier != "quick"
                                 else [64, 100, 128, 256, 512, 1000, 1024, 2048, 4096, 4096, 8192]))
        big = b + draw(st.sampled_from([0, 0, -1, 1]))
    return {"kind": "pin", "base": base, "pos": pos, "rows": rows, "dd": dd, "final_newline": draw(st.booleans()), "big": big,
            "sep_protein": draw(st.sampled_from([":", ":", ";", "|", ","])),
            "sep_column": draw(st.sampled_from(["\t", "\t", "\t", "\x1f"]))}


@st.composite
def _cli_case(draw, tier):
    """The CLI's verify step: 1-3 PSM files on one command line, each ragged, ragged with a DefaultDirection line or
    already rectangular, in any order; optionally a non-empty <pin>.tsv lies next to one of them."""
    files = []
    for _ in range(draw(st.sampled_from([1, 2, 2, 3]))):
        c = draw(_case(tier))
        c["big"] = None
        c["sep_column"], c["sep_protein"] = "\t", ":"
        if draw(st.sampled_from([False, False, True])):  # already rectangular
            c["dd"] = None
            for r in c["rows"]:
                r["proteins"] = r["proteins"][:1]
        files.append(c)
    return {"kind": "cli", "files": files, "leftover": draw(st.sampled_from([None, None, 0, 1, 2])),
            "leftover_kind": draw(st.sampled_from(["rows", "garbage"])),
            # replicate searches: the files bear the same name in different directories
            "samename": draw(st.booleans()),
            # a PIN is a tab-delimited text whatever its name ends in
            "suffix": draw(st.sampled_from([".pin", ".pin", ".tab", ".txt", ".tsv", ".PIN", ".pin.1", ""]))}


@st.composite
def _table_case(draw, tier):
    """Any tab-delimited text handed to the validity predicate: rows may have more *or fewer* fields than the header
    (a truncated line), so deviations of several rows can cancel in any aggregate count."""
    ncol = draw(st.integers(2, 9))
    header = draw(st.lists(token, min_size=ncol, max_size=ncol))
    nrows = draw(st.integers(1, 10))
    devs = draw(st.lists(st.sampled_from([0, 0, 0, 0, 1, -1, 1, -1, 2, -2, 3]), min_size=nrows, max_size=nrows))
    if draw(st.booleans()):
        # make the deviations cancel: the first row stays rectangular, a later row takes up the balance
        devs[0] = 0
        if nrows >= 3:
            devs[-1] = -sum(devs[:-1])
    rows = [draw(st.lists(token, min_size=max(1, ncol + d), max_size=max(1, ncol + d))) for d in devs]
    dd = draw(st.sampled_from([None, None, None, ncol, ncol + 1, 2]))
    return {"kind": "table", "header": header, "rows": rows, "dd": dd, "final_newline": draw(st.booleans())}


def _check_table(case):
    from mokapot.parsers import pin_to_tsv as pt

    lines = ["\t".join(case["header"])]
    if case["dd"]:
        lines.append("\t".join(["DefaultDirection"] + ["-"] * (case["dd"] - 1)))
    lines += ["\t".join(r) for r in case["rows"]]
    text = "\n".join(lines) + ("\n" if case["final_newline"] else "")
    widths = [len(r) for r in case["rows"]]
    n = len(case["header"])
    want = case["dd"] is None and all(w == n for w in widths)
    got = guarded(pt.is_valid_tsv, StringIO(text), sig="is_valid_tsv")
    require(bool(got) == want and isinstance(got, (bool,)), "validity-predicate",
            f"is_valid_tsv = {got!r}, expected {want}: header of {n} fields, rows of {widths} fields, DefaultDirection line={case['dd']}")
    with core_scratch() as tmp:
        p = tmp / "t.pin"
        p.write_text(text)
        with open(p) as fh:
            got2 = guarded(pt.is_valid_tsv, fh, sig="is_valid_tsv")
        require(bool(got2) == want, "validity-predicate", f"is_valid_tsv(file) = {got2!r}, expected {want}: rows of {widths} fields for a header of {n}")
    bal = sum(w - n for w in widths) == 0 and any(w != n for w in widths)
    return {"nontrivial": any(w != n for w in widths) or bool(case["dd"]),
            "classes": ["validity-table"] + (["row-deviations-cancel"] if bal else []) + (["row-with-fewer-fields"] if any(w < n for w in widths) else []),
            "counters": {"rows_checked": len(widths)}}


def strategy(tier):
    return st.one_of(_case(tier), _case(tier), _case(tier), _case(tier), _case(tier), _case(tier), _table_case(tier), _cli_case(tier))


def render(case):
    text, exp = _render_tab(case)
    sc = case.get("sep_column", "\t")
    if sc != "\t":
        text = text.replace("\t", sc)
        exp = [e.replace("\t", sc) for e in exp]
    return text, exp


def all_rows(case):
    rows = case["rows"]
    if case.get("big") and rows:
        rows = [rows[i % len(rows)] for i in range(case["big"])]
    return rows


def _render_tab(case):
    base, pos = case["base"], case["pos"]
    header = base[:pos] + ["Proteins"] + base[pos:]
    lines = ["\t".join(header)]
    if case["dd"]:
        lines.append("\t".join(case["dd"]))
    exp = ["\t".join(header)]
    for r in all_rows(case):
        f = r["fields"]
        lines.append("\t".join(f[:pos] + r["proteins"] + f[pos:]))
        exp.append("\t".join(f[:pos] + [case.get("sep_protein", ":").join(r["proteins"])] + f[pos:]))
    text = "\n".join(lines) + ("\n" if case["final_newline"] else "")
    return text, exp


def well_formed(case):
    for r in case["rows"]:
        first = (r["fields"][:case["pos"]] + r["proteins"])[0]
        if first.startswith("DefaultDirection"):
            return False
        for t in r["fields"] + r["proteins"]:
            if not t or t != t.strip() or "\t" in t or "\n" in t or "\r" in t:
                return False
    for t in case["base"]:
        if not t or t != t.strip() or "\t" in t or "\n" in t or "\r" in t or t == "Proteins":
            return False
    return bool(case["rows"])


class _StopAfterVerify(BaseException):
    pass


def _check_cli(case):
    """Runs mokapot.mokapot.main up to the end of its verify step (read_pin is replaced by a stop signal) and compares
    every input file with the reference conversion of its own content."""
    import contextlib
    import io

    from mokapot import mokapot as cli
    from mokapot.parsers import pin_to_tsv as pt

    from core import scratch_dir

    if not all(well_formed(c) for c in case["files"]):
        return {"nontrivial": False, "classes": ["ill-formed-skipped"]}
    with scratch_dir() as tmp:
        paths, texts, exps, valid = [], [], [], []
        for i, c in enumerate(case["files"]):
            text, exp = render(c)
            if case.get("samename"):
                (tmp / f"rep{i}").mkdir()
                p = tmp / f"rep{i}" / ("search" + case.get("suffix", ".pin"))
            else:
                p = tmp / (f"exp{i}" + case.get("suffix", ".pin"))
            p.write_text(text)
            paths.append(p)
            texts.append(text)
            exps.append("\n".join(exp) + "\n")
            valid.append(c["dd"] is None and all(len(r["proteins"]) == 1 for r in c["rows"]))
        lo = case.get("leftover")
        left = None
        if lo is not None:
            left = Path(str(paths[lo % len(paths)]) + ".tsv")
            left.write_text("SpecId\tLabel\tScanNr\tPeptide\tProteins\nold\t1\t7\tPEPK\tPX\n" if case.get("leftover_kind") == "rows"
                            else "left over from an interrupted run\n")
        parsed = []

        def stop(*a, **k):
            # what the command line hands to the parser after its verify step
            arg = a[0] if a else k.get("pin_files")
            parsed.extend([Path(str(x)) for x in (arg if isinstance(arg, (list, tuple)) else [arg])])
            raise _StopAfterVerify()

        real = cli.read_pin
        cli.read_pin = stop
        try:
            with contextlib.redirect_stderr(io.StringIO()), contextlib.redirect_stdout(io.StringIO()):
                try:
                    cli.main([str(p) for p in paths] + ["--dest_dir", str(tmp / "out"), "--verbosity", "0"])
                except _StopAfterVerify:
                    pass
                except SystemExit as e:
                    raise Violation("cli-verify-exit", f"the command line stopped during the verify step: SystemExit({e.code})") from None
                except Exception as e:  # noqa: BLE001
                    raise Violation(f"cli-verify:{type(e).__name__}", f"verify step failed: {type(e).__name__}: {str(e)[:200]}") from None
        finally:
            cli.read_pin = real
        kinds = ["rect" if v else ("dd" if c["dd"] else "ragged") for v, c in zip(valid, case["files"])]
        where = f"files {kinds}, leftover next to file {lo if lo is None else lo % len(paths)} ({case.get('leftover_kind')})"
        require(len(parsed) == len(paths), "cli-verify-file", f"{len(parsed)} files handed to the parser for {len(paths)} inputs; {where}")
        for i, p in enumerate(paths):
            want = texts[i] if valid[i] else exps[i]
            # the file that is parsed for input i holds input i, converted if it needed conversion ...
            got = parsed[i].read_text()
            require(got == want, "cli-verify-file",
                    f"file parsed for input {i} ({kinds[i]}, {parsed[i].name}) after the verify step: {got.count(chr(10))} lines, expected "
                    f"{'its unchanged content' if valid[i] else 'the conversion of its own content'} ({want.count(chr(10))} lines); {where}")
            with open(parsed[i]) as fh:
                require(pt.is_valid_tsv(fh) is True, "cli-verify-file", f"file parsed for input {i} ({kinds[i]}) is not a valid TSV; {where}")
            # ... and the input file itself is either untouched or converted in place, never anything else
            now = p.read_text()
            require(now in (texts[i], want), "cli-input-changed", f"input file {i} ({kinds[i]}) holds neither its own content nor its conversion; {where}")
    classes = ["cli-verify", "cli-files-" + "+".join(kinds), "cli-suffix-" + (case.get("suffix", ".pin") or "none")]
    if case.get("samename") and len(paths) >= 2:
        classes.append("cli-equally-named-files-in-different-directories")
    if lo is not None:
        classes.append("cli-leftover-tsv-next-to-" + kinds[lo % len(paths)])
    nontrivial = len(paths) >= 2 and any(valid) and not all(valid) or lo is not None
    return {"nontrivial": bool(nontrivial), "classes": classes, "counters": {"cli_verify_runs": 1, "rows_checked": sum(len(c["rows"]) for c in case["files"])}}


def check(case):
    from mokapot.parsers import pin_to_tsv as pt

    if case.get("kind") == "cli":
        return _check_cli(case)
    if case.get("kind") == "table":
        return _check_table(case)
    if not well_formed(case):
        return {"nontrivial": False, "classes": ["ill-formed-skipped"]}
    text, exp = render(case)
    out = StringIO()
    sp = case.get("sep_protein", ":")
    scol = case.get("sep_column", "\t")
    kw = {} if scol == "\t" else {"sep_column": scol}
    if sp == ":":
        guarded(pt.pin_to_valid_tsv, StringIO(text), out, sig="pin_to_valid_tsv", **kw)
    else:
        guarded(pt.pin_to_valid_tsv, StringIO(text), out, sep_protein=sp, sig="pin_to_valid_tsv", **kw)
    got = out.getvalue()
    require(got.endswith("\n") or not got, "no-final-newline", "output does not end with a newline")
    glines = got.split("\n")[:-1]
    require(len(glines) == len(exp), "line-count", f"{len(glines)} output lines for header + {len(all_rows(case))} PSMs (DefaultDirection={bool(case['dd'])})")
    require(glines[0] == exp[0], "header-changed", f"{glines[0]!r} != {exp[0]!r}")
    for i, (g, e) in enumerate(zip(glines[1:], exp[1:])):
        require(g == e, "row-changed", f"PSM {i}: {g!r} != expected {e!r}")
    valid_out = guarded(pt.is_valid_tsv, StringIO(got), sig="is_valid_tsv", **kw)
    require(valid_out is True, "output-not-valid", "converted output is not recognised as a valid TSV")
    out2 = StringIO()
    guarded(pt.pin_to_valid_tsv, StringIO(got), out2, sep_protein=sp, sig="pin_to_valid_tsv", **kw)
    require(out2.getvalue() == got, "not-idempotent", "converting the output again changes it")
    ncol = len(case["base"]) + 1
    exp_valid = case["dd"] is None and all(len(r["proteins"]) == 1 for r in case["rows"])
    valid_in = guarded(pt.is_valid_tsv, StringIO(text), sig="is_valid_tsv", **kw)
    require(valid_in == exp_valid, "validity-predicate",
            f"is_valid_tsv(input) = {valid_in}, expected {exp_valid} (DefaultDirection={bool(case['dd'])}, protein counts {[len(r['proteins']) for r in case['rows']]})")
    multi = any(len(r["proteins"]) >= 2 for r in case["rows"])
    classes = []
    if case["pos"] != len(case["base"]):
        classes.append("proteins-not-last")
    if case["dd"]:
        classes.append("default-direction" + ("-full-width" if len(case["dd"]) == ncol else ""))
    if not case["final_newline"]:
        classes.append("no-final-newline")
    if multi:
        classes.append("multi-protein")
    if sp != ":":
        classes.append("custom-protein-separator")
    if scol != "\t":
        classes.append("custom-column-separator")
    if case.get("big"):
        classes.append("long-file")
        if case["big"] & (case["big"] - 1) == 0:
            classes.append("row-count-power-of-two")
    nontrivial = multi and (case["pos"] != len(case["base"]) or bool(case["dd"]) or not case["final_newline"])
    return {"nontrivial": nontrivial, "classes": classes, "counters": {"rows_checked": len(all_rows(case))}}


def extra(tier, seed, shard, nshards, stats):
    """Coverage-guided tier (atheris / libFuzzer) - thorough only, shards 0-3 run one campaign each."""
    if tier != "thorough" or shard >= 4:
        return
    import core

    dep = core.ensure_dep("atheris")
    if dep is None:
        stats.notes["atheris"] = "unavailable: not importable and not installable from the offline wheelhouse"
        return
    runs = 600000
    work = Path(tempfile.mkdtemp(prefix="c19fuzz_", dir="/dev/shm" if os.path.isdir("/dev/shm") else None))
    try:
        corpus = work / "corpus"
        corpus.mkdir()
        if shard % 2 == 1:  # odd shards start from the two doctest examples, even shards from an empty corpus
            from mokapot.parsers import pin_to_tsv as pt

            (corpus / "ex1").write_bytes(pt.EXAMPLE_PIN.encode())
            (corpus / "ex2").write_bytes(b"\x05\x02\x01\x03abc\x01d\x02ef\x01g")
        fail = work / "fail.json"
        env = dict(os.environ)
        env["VERIF_REPO"] = REPO
        env["C19_FAIL_FILE"] = str(fail)
        env["PYTHONPATH"] = dep + os.pathsep + env.get("PYTHONPATH", "")
        cmd = [sys.executable, str(HARNESS / "fuzz" / "c19_fuzz.py"), f"-runs={runs}", f"-seed={seed * 100 + shard + 1}",
               "-max_len=512", f"-artifact_prefix={work}/", str(corpus)]
        p = subprocess.run(cmd, env=env, capture_output=True, text=True, timeout=3000)
        tail = (p.stderr or "")[-1500:]
        execs = 0
        import re as _re

        m = _re.search(r"Done (\d+) runs", p.stderr or "")
        if m:
            execs = int(m.group(1))
        stats.counters["atheris_executions"] += execs
        stats.counters["atheris_campaigns"] += 1
        stats.notes.setdefault("atheris", []).append({"shard": shard, "rc": p.returncode, "execs": execs, "corpus": "doctest" if shard % 2 else "empty"})
        if fail.exists():
            doc = json.loads(fail.read_text())
            stats.failure = {"case": doc["case"], "signature": doc["signature"], "message": "[atheris] " + doc["message"]}
        elif p.returncode != 0:
            raise RuntimeError("atheris campaign failed without an oracle failure: " + tail)
    finally:
        import shutil

        shutil.rmtree(work, ignore_errors=True)
