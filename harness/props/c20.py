"""C20 - PepXML parsing turns every search hit into one faithful PSM."""

from __future__ import annotations

import math
from xml.sax.saxutils import quoteattr

import re

import numpy as np
from hypothesis import strategies as st

import core
from core import Violation, guarded, require, scratch_dir

ID = "C20"
LEVEL = "exploration"
TECHNIQUE = (
    "Hypothesis-generated PepXML documents from a grammar (runs, spectra, hits, modifications, alternative proteins, "
    "optional attributes, namespace) compared row by row with a reference built from the generator's document model; "
    "Percolator-flavoured and non-XML inputs must be rejected"
)
RULE = (
    "case = 1-2 files x 1-3 msms_run_summary x 1-6 spectrum_query x 1-4 search_hit, each with peptide, protein "
    "(accession + description), 0-3 alternative proteins with mixed decoy prefixes, 0-3 mod_aminoacid_mass at ascending "
    "positions (incl. positions >= 10 and masses of different text length), a per-document set of 1-4 search_score "
    "names with values that avoid the log-transform heuristic (plus an optional E-value-like score with exact zeros spanning many orders of magnitude, checked for order preservation), optional hit attributes in all hits or none, with/without "
    "XML namespace, element order variants; negative variants: Percolator score name, non-XML text, well-formed XML of another schema (mzML-, protXML-like, generic) or a PepXML document whose tail is missing (ill-formed XML), alone or among valid files; hits may carry is_rejected=0/1. Non-trivial: some "
    "hit has >=2 modifications or mixed target/decoy proteins, or the document has >=2 runs. Distinct = distinct JSON."
)
ASSUMPTIONS = [
    "scan = end_scan (documents use start_scan = end_scan); score values are plain decimals with at least one negative "
    "value per score, so the p-value log-transform heuristic does not apply",
    "accessions contain no blanks or tabs; the decoy prefix is 'decoy_'",
]
AA = "ACDEFGHIKLMNPQRSTVWY"
SCORES = ["xcorr", "deltacn", "hyperscore", "nextscore", "spscore", "expect_like", "expect"]
# an E-value-like score: non-negative, many orders of magnitude, exact zeros (mokapot may log-transform such a column;
# whatever it does must keep the order of the reported values)
EVALUES = [0.0, 0.0, 1e-12, 2.5e-08, 3.2e-07, 0.00045, 0.0011, 0.02, 0.37, 1.5, 12.0, 250.0]


PRELUDE_DOC = """<?xml version="1.0" encoding="UTF-8"?>
<msms_pipeline_analysis><msms_run_summary base_name="old" raw_data=".mzML">
<spectrum_query start_scan="1" end_scan="1" precursor_neutral_mass="500.0" assumed_charge="2" retention_time_sec="1.0">
<search_result><search_hit hit_rank="1" peptide="OLDPEPTIDEK" protein="OLDPROT" calc_neutral_pep_mass="500.1">
<search_score name="oldscore" value="-1.5"/></search_hit></search_result></spectrum_query>
</msms_run_summary></msms_pipeline_analysis>
"""


# well-formed XML of other schemas (what a *.xml glob picks up next to the PepXML files)
OTHER_XML = [
    """<?xml version="1.0" encoding="UTF-8"?>
<mzML xmlns="http://psi.hupo.org/ms/mzml" version="1.1.0"><run id="r1"><spectrumList count="1">
<spectrum index="0" id="scan=1" defaultArrayLength="0"><cvParam name="ms level" value="2"/></spectrum>
</spectrumList></run></mzML>
""",
    """<?xml version="1.0" encoding="UTF-8"?>
<protein_summary xmlns="http://regis-web.systemsbiology.net/protXML"><protein_group group_number="1" probability="1.0">
<protein protein_name="sp|P12345|ALBU_HUMAN" probability="1.0"><peptide peptide_sequence="PEPTIDEK" charge="2"/></protein>
</protein_group></protein_summary>
""",
    """<?xml version="1.0"?>
<root><item a="1">text</item><item a="2"/></root>
""",
]


def budget(tier):
    if tier == "quick":
        return {"examples": 4800, "shards": 16, "time_s": 60}
    return {"examples": 128000, "shards": 16, "time_s": 1500}


@st.composite
def _hit(draw, score_names):
    L = draw(st.integers(6, 30))
    pep = "".join(draw(st.lists(st.sampled_from(AA), min_size=L, max_size=L)))
    nmods = draw(st.sampled_from([0, 0, 1, 2, 3]))
    positions = sorted(draw(st.lists(st.integers(1, L), min_size=nmods, max_size=nmods, unique=True)))
    mods = [{"position": p, "mass": draw(st.sampled_from(["160.0307", "147.0354", "57.02", "79.96633", "1", "115.1"]))} for p in positions]
    prefix = lambda: draw(st.sampled_from(["", "", "decoy_"]))  # noqa: E731
    acc = lambda: draw(st.sampled_from(["sp|P12345|ALBU_HUMAN", "tr|Q9XYZ1|Q9XYZ1_MOUSE", "PROT1", "ENSP0001.2"]))  # noqa: E731
    nalt = draw(st.sampled_from([0, 0, 1, 2, 3]))
    return {
        "peptide": pep,
        "mods": mods,
        "protein": prefix() + acc(),
        "protein_descr": draw(st.booleans()),
        "alts": [prefix() + acc() for _ in range(nalt)],
        "calc_mass": draw(st.integers(500000, 3000000)) / 1000.0,
        "scores": {n: (draw(st.sampled_from(EVALUES)) if n == "expect" else draw(st.integers(-5000, 50000)) / 1000.0) for n in score_names},
        "opt": [draw(st.integers(0, 3)), draw(st.integers(0, 2)), draw(st.integers(1, 5000))],
        "alt_first": draw(st.booleans()),
        # terminal modifications are attributes of the modification_info element itself (not residue modifications)
        "nterm": draw(st.sampled_from([None, None, None, "43.0184", "230.1", "2"])),
        "cterm": draw(st.sampled_from([None, None, None, "17.0027"])),
    }


@st.composite
def _case(draw, tier):
    nscore = draw(st.integers(1, 4))
    score_names = draw(st.lists(st.sampled_from(SCORES), min_size=nscore, max_size=nscore, unique=True))
    files = []
    for _ in range(draw(st.sampled_from([1, 1, 2]))):
        runs = []
        for ri in range(draw(st.sampled_from([1, 1, 2, 3]))):
            spectra = []
            for si in range(draw(st.integers(1, 6))):
                hits = [draw(_hit(score_names)) for _ in range(draw(st.sampled_from([1, 1, 2, 4])))]
                spectra.append({"scan": draw(st.integers(1, 99999)), "charge": draw(st.integers(1, 4)),
                                "rt": draw(st.integers(0, 7200000)) / 1000.0, "mass": draw(st.integers(400000, 4000000)) / 1000.0,
                                "hits": hits, "two_results": draw(st.integers(0, 5)) == 0})
            runs.append({"base": draw(st.sampled_from(["run_a", "/data/x/run_b", "run_c.mzML", "r d"])),
                         "ext": draw(st.sampled_from([".mzML", ".mzXML", ".raw"])), "spectra": spectra})
        files.append({"runs": runs, "ns": draw(st.booleans())})
    # optional hit attributes: all / none, or any subset per file; a later file may lack the last search score (another engine setting)
    kind = draw(st.sampled_from(["all", "none", "subset", "subset"]))
    for f in files:
        f["opt_mask"] = {"all": [True] * 3, "none": [False] * 3}.get(kind) or [draw(st.booleans()) for _ in range(3)]
        f["drop_last_score"] = False
    if len(files) > 1 and len(score_names) >= 2:
        files[draw(st.integers(0, len(files) - 1))]["drop_last_score"] = draw(st.booleans())
    return {"files": files, "score_names": score_names, "opt_attrs": kind != "none",
            "decoy_prefix": draw(st.sampled_from(["decoy_", "decoy_", "rev_"])), "exclude": draw(st.booleans()),
            "negative": draw(st.sampled_from(["none"] * 10 + ["percolator", "notxml", "otherxml", "otherxml", "truncated", "truncated"])),
            # a document whose tail is missing (interrupted copy): cut at this fraction of its text
            "cut": draw(st.sampled_from([0.3, 0.5, 0.7, 0.9, 0.97, 0.995, 0.9999])),
            # the optional hit attribute is_rejected: absent, "0" everywhere, or "1" on some hits (they are hits like any other)
            "is_rejected": draw(st.sampled_from([None, None, "0", "mixed", "mixed"])),
            "neg_file": draw(st.integers(0, 1)), "neg_doc": draw(st.integers(0, 2))}


def strategy(tier):
    return _case(tier)


def _pfx(name, case):
    """accessions are generated with 'decoy_'; render them with the case's prefix"""
    dp = case.get("decoy_prefix", "decoy_")
    return dp + name[len("decoy_"):] if name.startswith("decoy_") else name


def render(f, case):
    ns = ' xmlns="http://regis-web.systemsbiology.net/pepXML"' if f["ns"] else ""
    out = ['<?xml version="1.0" encoding="UTF-8"?>', f"<msms_pipeline_analysis{ns} date=\"2020-01-01T00:00:00\">"]
    idx = 0
    for run in f["runs"]:
        out.append(f'<msms_run_summary base_name={quoteattr(run["base"])} raw_data_type="raw" raw_data={quoteattr(run["ext"])}>')
        out.append('<search_summary base_name="x" search_engine="X! Tandem" precursor_mass_type="monoisotopic" fragment_mass_type="monoisotopic" search_id="1"/>')
        for sp in run["spectra"]:
            idx += 1
            out.append(f'<spectrum_query spectrum="s.{sp["scan"]}" start_scan="{sp["scan"]}" end_scan="{sp["scan"]}" '
                       f'precursor_neutral_mass="{sp["mass"]!r}" assumed_charge="{sp["charge"]}" index="{idx}" retention_time_sec="{sp["rt"]!r}">')
            groups = [sp["hits"]]
            if sp["two_results"] and len(sp["hits"]) >= 2:
                groups = [sp["hits"][:1], sp["hits"][1:]]
            rank = 0
            for g in groups:
                out.append("<search_result>")
                for h in g:
                    rank += 1
                    mask = f.get("opt_mask") or [bool(case["opt_attrs"])] * 3
                    opt = "".join(f' {a}="{v}"' for a, v, on in zip(("num_missed_cleavages", "num_tol_term", "num_matched_peptides"), h["opt"], mask) if on)
                    descr = " Some protein OS=Homo sapiens" if h["protein_descr"] else ""
                    rej = case.get("is_rejected")
                    if rej:
                        opt += f' is_rejected="{rej if rej != "mixed" else (idx + rank) % 2}"'
                    out.append(f'<search_hit hit_rank="{rank}" peptide="{h["peptide"]}" protein={quoteattr(_pfx(h["protein"], case) + descr)} '
                               f'num_tot_proteins="{1 + len(h["alts"])}" calc_neutral_pep_mass="{h["calc_mass"]!r}" massdiff="0.1"{opt}>')
                    alts = [f'<alternative_protein protein={quoteattr(_pfx(a, case) + (" alt descr" if h["protein_descr"] else ""))}/>' for a in h["alts"]]
                    mods = []
                    if h["mods"] or h.get("nterm") or h.get("cterm"):
                        term = (f' mod_nterm_mass="{h["nterm"]}"' if h.get("nterm") else "") + (f' mod_cterm_mass="{h["cterm"]}"' if h.get("cterm") else "")
                        mods.append(f'<modification_info modified_peptide="{h["peptide"]}"{term}>')
                        for m in h["mods"]:
                            mods.append(f'<mod_aminoacid_mass position="{m["position"]}" mass="{m["mass"]}"/>')
                        mods.append("</modification_info>")
                    scores = [f'<search_score name="{n}" value="{v!r}"/>' for n, v in h["scores"].items()
                              if not (f.get("drop_last_score") and n == case["score_names"][-1])]
                    if case["negative"] == "percolator":
                        scores.append('<search_score name="Percolator q-Value" value="0.01"/>')
                    out += (alts + mods + scores) if h["alt_first"] else (mods + scores + alts)
                    out.append("</search_hit>")
                out.append("</search_result>")
            out.append("</spectrum_query>")
        out.append("</msms_run_summary>")
    out.append("</msms_pipeline_analysis>")
    return "\n".join(out) + "\n"


def expected_rows(case):
    rows = []
    for f in case["files"]:
        for run in f["runs"]:
            name = run["base"] if run["base"].endswith(run["ext"]) else run["base"] + run["ext"]
            for sp in run["spectra"]:
                for h in sp["hits"]:
                    pep = h["peptide"]
                    off = 0
                    for m in h["mods"]:
                        i = m["position"] + off
                        ins = "[" + m["mass"] + "]"
                        pep = pep[:i] + ins + pep[i:]
                        off += len(ins)
                    prots = [_pfx(x, case) for x in [h["protein"]] + h["alts"]]
                    rows.append({"ms_data_file": name, "scan": sp["scan"], "charge": sp["charge"], "ret_time": sp["rt"],
                                 "exp_mass": sp["mass"], "calc_mass": h["calc_mass"], "peptide": pep,
                                 "terminal_mods": bool(h.get("nterm") or h.get("cterm")),
                                 "proteins": "\t".join(prots), "label": not all(p.startswith(case.get("decoy_prefix", "decoy_")) for p in prots),
                                 "scores": {n: v for n, v in h["scores"].items() if not (f.get("drop_last_score") and n == case["score_names"][-1])},
                                 "opt": h["opt"], "opt_mask": f.get("opt_mask") or [bool(case["opt_attrs"])] * 3})
    return rows


def check(case):
    import mokapot

    neg = case["negative"]
    with scratch_dir() as tmp:
        paths = []
        shared = core.scratch_root() / "c20_shared"
        shared.mkdir(exist_ok=True)
        for i, f in enumerate(case["files"]):
            # history: the same path held another document that was parsed before (per-path state must not leak)
            p = shared / f"f{i}.pep.xml"
            if neg == "none":
                p.write_text(PRELUDE_DOC)
                try:
                    mokapot.read_pepxml(str(p), to_df=True)
                except Exception:  # noqa: BLE001
                    pass
            bad = i == case.get("neg_file", 0) % len(case["files"])
            if neg == "notxml" and i == 0:
                p.write_text("this is not xml at all\njust text\n")
            elif neg == "otherxml" and bad:
                p.write_text(OTHER_XML[case.get("neg_doc", 0) % len(OTHER_XML)])
            elif neg == "truncated" and bad:
                doc = render(f, case)
                p.write_text(doc[:max(60, min(len(doc) - 3, int(len(doc) * case.get("cut", 0.7))))])
            else:
                p.write_text(render(f, case))
            paths.append(str(p))
        arg = paths if len(paths) > 1 else paths[0]
        if neg != "none":
            cls = ["negative-" + neg] + (["negative-among-valid-files"] if len(paths) > 1 else [])
            try:
                mokapot.read_pepxml(arg, to_df=True, decoy_prefix=case.get("decoy_prefix", "decoy_"))
            except ValueError:
                return {"nontrivial": True, "classes": cls, "counters": {"negative": 1}}
            except Exception as e:  # noqa: BLE001
                if neg in ("otherxml", "truncated"):
                    # the statement asks for "an error"; for well-formed XML of another schema mokapot raises KeyError
                    return {"nontrivial": True, "classes": cls + ["rejected-by-" + type(e).__name__], "counters": {"negative": 1}}
                raise Violation("bad-input-wrong-error", f"{neg}: {type(e).__name__}: {e}") from None
            raise Violation("bad-input-accepted", f"{neg} input ({len(paths)} file(s)) was parsed without an error")
        dp = case.get("decoy_prefix", "decoy_")
        df = guarded(mokapot.read_pepxml, arg, to_df=True, decoy_prefix=dp, sig="read_pepxml")
        exp = expected_rows(case)
        require(len(df) == len(exp), "psm-count", f"{len(df)} PSMs for {len(exp)} search hits")
        recs = df.to_dict("records")
        for i, (g, e) in enumerate(zip(recs, exp)):
            for k in ("scan", "charge"):
                require(int(g[k]) == e[k], "spectrum-field", f"hit {i}: {k} {g[k]} != {e[k]}")
            for k in ("ret_time", "exp_mass", "calc_mass"):
                require(float(g[k]) == e[k], "spectrum-field", f"hit {i}: {k} {g[k]!r} != {e[k]!r}")
            require(str(g["ms_data_file"]) == e["ms_data_file"], "data-file", f"hit {i}: {g['ms_data_file']} != {e['ms_data_file']}")
            gp = str(g["peptide"])
            if e.get("terminal_mods"):
                # the statement speaks of residue modifications; a notation for terminal ones (n[..] / c[..] around the
                # peptide) may or may not be added - the residue modifications must sit after their residues either way
                gp = re.sub(r"^n\[[^\]]*\]", "", gp)
                gp = re.sub(r"c\[[^\]]*\]$", "", gp)
            require(gp == e["peptide"], "peptide", f"hit {i}: {g['peptide']} != {e['peptide']}")
            require(g["proteins"] == e["proteins"], "proteins", f"hit {i}: {g['proteins']!r} != {e['proteins']!r}")
            require(bool(g["label"]) == e["label"], "label", f"hit {i}: label {g['label']} for proteins {e['proteins']!r}")
            for n, v in e["scores"].items():
                require(n in g, "score-missing", f"hit {i}: no column {n}")
                gv = g[n]
                require(isinstance(gv, (int, float, np.floating, np.integer)) and not isinstance(gv, bool), "score-not-numeric", f"hit {i}: {n}={gv!r}")
                # a score whose values happen to be all non-negative may be log-transformed; only then a monotone relation is required
                col = [x["scores"][n] for x in exp if n in x["scores"]]
                if min(col) < 0:
                    require(float(gv) == v, "score-value", f"hit {i}: {n} {gv!r} != {v!r}")
            # optional attributes a hit carries are reported; an attribute no hit of any file carries gives no column
            for col, val, on, k in zip(("missed_cleavages", "ntt", "num_matched_peptides"), e["opt"], e["opt_mask"], range(3)):
                if on:
                    require(col in g and g[col] == g[col], "optional-attribute", f"hit {i}: attribute {col} of the hit was not reported ({g.get(col)!r})")
                    want = math.log10(val) if col == "num_matched_peptides" else val
                    require(abs(float(g[col]) - want) < 1e-12, "optional-attribute", f"hit {i}: {col} {g[col]!r} != {want!r}")
                elif not any(x["opt_mask"][k] for x in exp):
                    require(col not in g, "optional-attribute", f"absent attribute produced a column {col}")
                else:
                    require(col not in g or g[col] != g[col], "optional-attribute", f"hit {i}: {col}={g[col]!r} for a hit without the attribute")
        # every score column is a strictly increasing function of the reported value (identity, or a log transform
        # that puts exact zeros below everything else)
        for nme in case["score_names"]:
            pairs = sorted((e["scores"][nme], float(g[nme])) for g, e in zip(recs, exp) if nme in e["scores"])
            for (r1, f1), (r2, f2) in zip(pairs, pairs[1:]):
                ok = (f1 == f2) if r1 == r2 else (f1 < f2)
                require(ok and math.isfinite(f1) and math.isfinite(f2), "score-order",
                        f"score {nme}: reported values {r1!r} < {r2!r} became features {f1!r}, {f2!r}")
        labels = [e["label"] for e in exp]
        if any(labels) and not all(labels):
            excl = case["score_names"][0] if (case.get("exclude") and len(case["score_names"]) >= 2) else None
            ds = guarded(mokapot.read_pepxml, arg, decoy_prefix=dp, exclude_features=excl, sig="read_pepxml")
            require(len(ds) == len(exp) and list(ds.targets) == labels, "dataset-labels", "LinearPsmDataset targets differ from the labels")
            feats = set(ds._feature_columns)
            want_feats = set(case["score_names"]) - ({excl} if excl else set())
            require(want_feats <= feats, "dataset-features", f"scores missing from the features: {want_feats - feats}")
            require(excl is None or excl not in feats, "dataset-features", f"excluded feature {excl} is still a feature")
            require(not ({"label", "proteins", "peptide", "scan", "ms_data_file"} & feats), "dataset-features", "metadata used as feature")
    multi_mod = any(len(h["mods"]) >= 2 for f in case["files"] for r in f["runs"] for s in r["spectra"] for h in s["hits"])
    mixed = any(len({p.startswith("decoy_") for p in [h["protein"]] + h["alts"]}) == 2 for f in case["files"] for r in f["runs"] for s in r["spectra"] for h in s["hits"])
    multi_run = any(len(f["runs"]) >= 2 for f in case["files"])
    classes = []
    if multi_mod:
        classes.append("multi-mod")
        if any(m["position"] >= 10 for f in case["files"] for r in f["runs"] for s in r["spectra"] for h in s["hits"] if len(h["mods"]) >= 2 for m in h["mods"]):
            classes.append("mod-position>=10")
    if mixed:
        classes.append("mixed-target-decoy")
    if multi_run:
        classes.append("multi-run")
    if len(case["files"]) > 1:
        classes.append("multi-file")
    if case["opt_attrs"]:
        classes.append("optional-attrs")
    if "expect" in case["score_names"]:
        ev = [h["scores"]["expect"] for f in case["files"] for r in f["runs"] for s_ in r["spectra"] for h in s_["hits"]]
        if 0.0 in ev and max(ev) > 0 and max(ev) / min(x for x in ev if x > 0) >= 1e4:
            classes.append("evalue-score-with-zeros-wide-range")
    return {"nontrivial": multi_mod or mixed or multi_run, "classes": classes, "counters": {"hits_checked": len(exp)}}
