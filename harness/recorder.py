"""Recording estimators: scikit-learn compatible objects handed to mokapot through the
public Model API.  The LAST feature column is a row id (rid = file*1e6 + row), models
use scaler="as-is", so every fit / predict call can be logged with the rows it saw."""

from __future__ import annotations

import itertools
import threading

import numpy as np
from sklearn.base import BaseEstimator, ClassifierMixin

LOGS = {}
_LOCK = threading.Lock()
_TOKENS = itertools.count(1)


def new_log(name):
    with _LOCK:
        LOGS[name] = []
    return LOGS[name]


def drop_log(name):
    with _LOCK:
        LOGS.pop(name, None)


def _emit(name, ev):
    with _LOCK:
        LOGS.setdefault(name, []).append(ev)


def psi(rid, token):
    """Fixed bounded pseudo-random function of (row id, token) in [-1, 1)."""
    x = (np.asarray(rid, dtype=np.float64) * 0.6180339887498949 + token * 0.7548776662466927) % 1.0
    return 2.0 * x - 1.0


class _Base(ClassifierMixin, BaseEstimator):
    def __init__(self, log="default", w=1.0, eps=1e-3, feat=0):
        self.log = log
        self.w = w
        self.eps = eps
        self.feat = feat

    def _token(self):
        tok = self.__dict__.get("token_")
        if tok is None:
            with _LOCK:
                tok = next(_TOKENS)
            self.token_ = tok
        return tok

    def __deepcopy__(self, memo):
        # a copy is a new model: fresh token, same log
        new = type(self)(**self.get_params())
        for k, v in self.__dict__.items():
            if k != "token_":
                new.__dict__[k] = v if not isinstance(v, np.ndarray) else v.copy()
        return new

    def fit(self, X, y):
        X = np.asarray(X)
        tok = self._token()
        _emit(self.log, (tok, "fit", X[:, -1].astype(np.int64).copy(), np.asarray(y).copy()))
        self.classes_ = np.array([0.0, 1.0])
        self.n_fit_ = self.__dict__.get("n_fit_", 0) + 1
        return self

    def _raw(self, X):
        X = np.asarray(X, dtype=np.float64)
        tok = self._token()
        return self.w * X[:, self.feat] + self.eps * psi(X[:, -1], tok)


class Lin(_Base):
    """decision_function = w * informative feature + eps * psi(rid, token)."""

    def decision_function(self, X):
        out = self._raw(X)
        _emit(self.log, (self._token(), "predict", np.asarray(X)[:, -1].astype(np.int64).copy(), out.copy()))
        return out


class LinTied(_Base):
    """Coarsely quantised linear decision function: many exact ties between targets and decoys."""

    def decision_function(self, X):
        X = np.asarray(X, dtype=np.float64)
        out = np.round(self.w * X[:, self.feat] * 2.0) / 2.0
        _emit(self.log, (self._token(), "predict", X[:, -1].astype(np.int64).copy(), out.copy()))
        return out


class LinInt(_Base):
    """Integer-valued decision function returned with an integer dtype (vote / rule counters, quantised scorers)."""

    def decision_function(self, X):
        X = np.asarray(X, dtype=np.float64)
        out = np.round(self.w * X[:, self.feat] * 3.0).astype(np.int64)
        _emit(self.log, (self._token(), "predict", X[:, -1].astype(np.int64).copy(), out.astype(np.float64)))
        return out


class LinOffset(_Base):
    """Linear decision function on a large intercept (raw output ~ 2e6 +- a few units)."""

    def decision_function(self, X):
        out = self._raw(X) + 2.0e6
        _emit(self.log, (self._token(), "predict", np.asarray(X)[:, -1].astype(np.int64).copy(), out.copy()))
        return out


class LinTiny(_Base):
    """Linear decision function on a tiny scale (raw output ~ 1e-10)."""

    def decision_function(self, X):
        out = self._raw(X) * 1.0e-10
        _emit(self.log, (self._token(), "predict", np.asarray(X)[:, -1].astype(np.int64).copy(), out.copy()))
        return out


class Cubic(_Base):
    """A monotone non-linear decision function."""

    def decision_function(self, X):
        r = self._raw(X)
        out = r + 0.1 * r**3
        _emit(self.log, (self._token(), "predict", np.asarray(X)[:, -1].astype(np.int64).copy(), out.copy()))
        return out


class Proba(_Base):
    """Only predict_proba, (n, 2)-shaped."""

    def predict_proba(self, X):
        r = self._raw(X)
        p = 1.0 / (1.0 + np.exp(-r))
        _emit(self.log, (self._token(), "predict", np.asarray(X)[:, -1].astype(np.int64).copy(), p.copy()))
        return np.column_stack([1.0 - p, p])


class Proba1(_Base):
    """Only predict_proba, (n,)-shaped (skorch style)."""

    def predict_proba(self, X):
        r = self._raw(X)
        p = 1.0 / (1.0 + np.exp(-r))
        _emit(self.log, (self._token(), "predict", np.asarray(X)[:, -1].astype(np.int64).copy(), p.copy()))
        return p.reshape(-1, 1)


class Const(_Base):
    """Cannot learn: constant output."""

    def decision_function(self, X):
        out = np.zeros(len(X))
        _emit(self.log, (self._token(), "predict", np.asarray(X)[:, -1].astype(np.int64).copy(), out.copy()))
        return out


class Invert(_Base):
    """Learns the wrong sign."""

    def decision_function(self, X):
        out = -self._raw(X)
        _emit(self.log, (self._token(), "predict", np.asarray(X)[:, -1].astype(np.int64).copy(), out.copy()))
        return out


class LinFailSome(_Base):
    """Learns the right direction only if every *marker* row (decoys, always part of a fit call) was among the
    rows it was fitted on; otherwise it learns the wrong sign, no target passes and mokapot's Model.fit gives up ("Model
    performs worse after training").  The folds that hold a marker out therefore fail to train, the others train."""

    def __init__(self, log="default", w=1.0, eps=1e-3, feat=0, markers=()):
        super().__init__(log=log, w=w, eps=eps, feat=feat)
        self.markers = markers

    def fit(self, X, y):
        super().fit(X, y)
        rids = set(np.asarray(X)[:, -1].astype(np.int64).tolist())
        self.sign_ = 1.0 if set(self.markers) <= rids else -1.0
        return self

    def decision_function(self, X):
        out = self.__dict__.get("sign_", 1.0) * self._raw(X)
        _emit(self.log, (self._token(), "predict", np.asarray(X)[:, -1].astype(np.int64).copy(), out.copy()))
        return out


class Memo(_Base):
    """The strongest memoriser: remembers the label of every training row; unseen rows
    get a weak score from the informative feature."""

    def fit(self, X, y):
        super().fit(X, y)
        X = np.asarray(X)
        self.mem_ = dict(zip(X[:, -1].astype(np.int64).tolist(), np.asarray(y).tolist()))
        return self

    def decision_function(self, X):
        X = np.asarray(X, dtype=np.float64)
        rid = X[:, -1].astype(np.int64)
        base = 0.05 * np.tanh(X[:, self.feat])
        mem = self.__dict__.get("mem_", {})
        out = np.array([(10.0 if mem[r] > 0.5 else -10.0) + b if r in mem else b for r, b in zip(rid.tolist(), base)])
        _emit(self.log, (self._token(), "predict", rid.copy(), out.copy()))
        return out


def make_model(estimator, **kw):
    """mokapot.Model subclass that brackets fit() with markers in the log, so that
    fit-time scoring of the training set is told apart from the final scoring."""
    import mokapot

    class RecModel(mokapot.Model):
        def fit(self, psms):
            est = self.estimator
            log = getattr(est, "log", None)
            tok = est._token() if hasattr(est, "_token") else id(self)
            if log is not None:
                _emit(log, (tok, "fit_begin", None, None))
            try:
                return super().fit(psms)
            finally:
                if log is not None:
                    # Model.fit replaces self.estimator by the fitted one (same object for non-CV)
                    _emit(log, (tok, "fit_end", None, None))

    kw.setdefault("scaler", "as-is")
    return RecModel(estimator, **kw)


def split_log(events):
    """-> {token: {"train": set(rids seen by fit or fit-time predict), "fit_calls": [...],
                   "final": [(rids, outputs), ...]  predict calls outside fit}}"""
    out = {}
    inside = {}
    for tok, kind, rids, vals in events:
        d = out.setdefault(tok, {"train": set(), "fit_calls": [], "fit_predicts": [], "final": []})
        if kind == "fit_begin":
            inside[tok] = True
        elif kind == "fit_end":
            inside[tok] = False
        elif kind == "fit":
            d["train"].update(rids.tolist())
            d["fit_calls"].append((rids, vals))
        elif kind == "predict":
            if inside.get(tok):
                d["train"].update(rids.tolist())
                d["fit_predicts"].append((rids, vals))
            else:
                d["final"].append((rids, vals))
    return out


# ---------------------------------------------------------------------------
from sklearn.preprocessing import StandardScaler  # noqa: E402


class RecScaler(StandardScaler):
    """A scaler that remembers the row ids (last column) it was fitted on, i.e. the
    training rows of the fold model it belongs to.  identity=True leaves the data as is."""

    def __init__(self, identity=True):
        super().__init__()
        self.identity = identity

    def fit_transform(self, X, y=None, **kw):
        X = np.asarray(X, dtype=float)
        self.train_rids_ = X[:, -1].astype(np.int64).copy()
        if self.identity:
            return X
        return super().fit_transform(X)

    def transform(self, X, copy=None):
        X = np.asarray(X, dtype=float)
        if self.identity:
            return X
        return super().transform(X)


# ---------------------------------------------------------------------------
class Centroid(_Base):
    """Deterministic, order-insensitive learner (difference of class centroids on all
    columns but the row id) that records every call.  iface: 'df' | 'proba2' | 'proba1'."""

    def __init__(self, log="default", w=1.0, eps=0.0, feat=0, iface="df"):
        super().__init__(log=log, w=w, eps=eps, feat=feat)
        self.iface = iface

    def fit(self, X, y):
        super().fit(X, y)
        X = np.asarray(X, dtype=np.float64)[:, :-1]
        y = np.asarray(y)
        pos, neg = X[y > 0.5], X[y <= 0.5]
        # exactly rounded sums: independent of the order of the rows
        import math

        mp = np.array([math.fsum(pos[:, j]) for j in range(X.shape[1])]) / max(1, len(pos))
        mn = np.array([math.fsum(neg[:, j]) for j in range(X.shape[1])]) / max(1, len(neg))
        self.coef_ = mp - mn
        self.mid_ = (mp + mn) / 2.0
        return self

    def _score(self, X):
        X = np.asarray(X, dtype=np.float64)
        # element-wise accumulation in a fixed column order: the score of a row is bit-identical
        # wherever the row stands (BLAS matrix products are not position independent)
        out = np.zeros(len(X))
        for j in range(X.shape[1] - 1):
            out = out + (X[:, j] - self.mid_[j]) * self.coef_[j]
        _emit(self.log, (self._token(), "predict", X[:, -1].astype(np.int64).copy(), out.copy()))
        return out

    def predict(self, X):
        # class prediction for scikit-learn scorers (hyper-parameter search); not logged
        X = np.asarray(X, dtype=np.float64)
        out = np.zeros(len(X))
        for j in range(X.shape[1] - 1):
            out = out + (X[:, j] - self.mid_[j]) * self.coef_[j]
        return (out > 0).astype(float)

    def __getattr__(self, name):
        # expose exactly one scoring interface
        iface = self.__dict__.get("iface", "df")
        if name == "decision_function" and iface == "df":
            return self._score
        if name == "predict_proba" and iface in ("proba2", "proba1"):
            def proba(X):
                s = self._score(X)
                p = 1.0 / (1.0 + np.exp(-np.clip(s, -50, 50)))
                return np.column_stack([1.0 - p, p]) if iface == "proba2" else p.reshape(-1, 1)
            return proba
        raise AttributeError(name)


class LinBoth(Lin):
    """Exposes decision_function AND predict_proba (like LogisticRegression); mokapot prefers
    decision_function, so the scores must be calibrated like those of any decision-function estimator."""

    def predict_proba(self, X):
        r = self._raw(X)
        p = 1.0 / (1.0 + np.exp(-r))
        return np.column_stack([1.0 - p, p])


class MemoWeak(Memo):
    """Perfect on its training rows, only weakly informative on unseen rows: trains fine, but on held-out
    data it accepts fewer targets than the best single feature (the 'learned scores are worse' branch)."""

    def decision_function(self, X):
        X = np.asarray(X, dtype=np.float64)
        rid = X[:, -1].astype(np.int64)
        base = 0.05 * np.tanh(0.45 * (self.w * X[:, 0] + 1.6 * X[:, 1]))
        mem = self.__dict__.get("mem_", {})
        out = np.array([(10.0 if mem[r] > 0.5 else -10.0) + b if r in mem else b for r, b in zip(rid.tolist(), base)])
        _emit(self.log, (self._token(), "predict", rid.copy(), out.copy()))
        return out
