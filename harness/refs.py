"""Reference models, written from the property statements (not from mokapot's code)."""

from __future__ import annotations

from fractions import Fraction


def tdc_ref(scores, is_target, desc=True):
    """Exact q-values of the defining formula.

    q_i = min over thresholds t at-or-worse than s_i of
          min(1, (decoys at-or-better than t + 1) / (targets at-or-better than t)),
          the term being 1 where no target qualifies.
    `scores` are any mutually comparable numbers (python floats / ints).
    Returns a list of Fractions in input order.
    """
    n = len(scores)
    key = (lambda v: -v) if desc else (lambda v: v)
    # distinct thresholds from best to worst
    order = sorted(range(n), key=lambda i: key(scores[i]))
    groups = []  # (score, [idx])
    for i in order:
        if groups and groups[-1][0] == scores[i]:
            groups[-1][1].append(i)
        else:
            groups.append((scores[i], [i]))
    T = D = 0
    fdr = []
    for _, idxs in groups:
        for i in idxs:
            if is_target[i]:
                T += 1
            else:
                D += 1
        if T == 0:
            fdr.append(Fraction(1))
        else:
            fdr.append(min(Fraction(1), Fraction(D + 1, T)))
    # running minimum from worst to best
    q = [None] * n
    cur = None
    for g in range(len(groups) - 1, -1, -1):
        cur = fdr[g] if cur is None else min(cur, fdr[g])
        for i in groups[g][1]:
            q[i] = cur
    return q


def _f32_exact(q):
    """True if the rational q is exactly representable in float32 (so mokapot's stored FDR equals it)."""
    import numpy as np

    f = float(np.float32(q.numerator / q.denominator))
    return Fraction(f) == q


def labels_ref(q_exact, is_target, thr, rel=3e-7):
    """Training labels per the statement and the set of indices whose label is
    ambiguous because the exact q-value is within float32 rounding of thr."""
    labels, ambiguous = [], set()
    for i, (q, t) in enumerate(zip(q_exact, is_target)):
        if not t:
            labels.append(-1)
            continue
        qf = float(q)
        # ambiguous only if float32 storage actually rounds this value (dyadic values such as 1/2, 1/4, 1 are exact)
        exact32 = qf == float(q.numerator) / float(q.denominator) and _f32_exact(q)
        if abs(qf - thr) <= rel * max(qf, thr) and not exact32:
            ambiguous.add(i)
        labels.append(1 if qf <= thr else 0)
    return labels, ambiguous


def accepted_ref(scores, is_target, thr, desc=True):
    """Number (and index list) of targets with exact q <= thr."""
    q = tdc_ref(scores, is_target, desc)
    idx = [i for i in range(len(q)) if is_target[i] and q[i] <= Fraction(thr)]
    return idx
