#!/bin/bash
# usage: round8.sh <PROP> [check-PROP]  - confirm the round-8 change of PROP independently, then run the quick check against it
P=$1; C=${2:-$1}; D=/tmp/seed_out8/$P/A
bash /verif/harness/confirm_seed.sh $D /tmp/seed_out8/baseline_outcomes.txt > /tmp/seed_out8/$P/confirm.txt 2>&1
bash /verif/harness/seedtest.sh $C $D > /tmp/seed_out8/$P/check_$C.txt 2>&1
echo "== $P: $(cat /tmp/seed_out8/$P/confirm.txt | tail -1) | $(grep -E 'signature|check rc' /tmp/seed_out8/$P/check_$C.txt | cut -c1-200 | tr '\n' ' ')"
