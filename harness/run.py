#!/venv/bin/python
"""Entry point:  run.py <Cxx> [--tier quick|thorough] [--seed N] | --replay <file>"""

import argparse
import os
import sys
from pathlib import Path

sys.path.insert(0, str(Path(__file__).resolve().parent))
import core  # noqa: E402


def main():
    ap = argparse.ArgumentParser()
    ap.add_argument("prop")
    ap.add_argument("--tier", default=os.environ.get("VERIF_TIER", "quick"), choices=["quick", "thorough"])
    ap.add_argument("--seed", type=int, default=None)
    ap.add_argument("--replay")
    ap.add_argument("--shard")
    ap.add_argument("--out")
    a = ap.parse_args()
    seed = a.seed
    if seed is None:
        try:
            seed = int(os.environ.get("VERIF_SEED", "1"))
        except ValueError:
            seed = 1
    seed = abs(seed) % (2**31)
    prop = a.prop.upper()
    if a.replay:
        return core.replay(prop, a.replay)
    if a.shard:
        i, n = a.shard.split("/")
        core.shard_worker(prop, a.tier, seed, int(i), int(n), a.out)
        return 0
    return core.run_property(prop, a.tier, seed)


if __name__ == "__main__":
    try:
        rc = main()
    except SystemExit:
        raise
    except BaseException:  # noqa: BLE001
        import traceback

        traceback.print_exc()
        rc = 2
    sys.exit(rc)
