#!/bin/bash
# usage: run_all.sh <tier> [seed] [props...]   - runs the checks one after another, prints a summary table
TIER=${1:-quick}; SEED=${2:-1}; shift 2 2>/dev/null
PROPS=${@:-C01 C02 C03 C04 C05 C06 C07 C08 C09 C10 C11 C12 C13 C14 C15 C16 C17 C18 C19 C20}
cd "$(dirname "$0")/.."
for p in $PROPS; do
  t0=$(date +%s)
  out=$(VERIF_SEED=$SEED /venv/bin/python harness/run.py $p --tier $TIER 2>&1); rc=$?
  t1=$(date +%s)
  echo "== $p rc=$rc wall=$((t1-t0))s :: $(echo "$out" | grep -E '^\[C' | tail -1)"
  if [ $rc -ne 0 ]; then echo "$out" | grep -E "VIOLATION|signature|HARNESS|Error" | head -6; fi
done
