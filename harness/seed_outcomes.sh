#!/bin/bash
# usage: outcomes.sh <worktree>  -> prints "SAME" if the pytest outcome list equals the clean baseline, else the diff
cd "$1" || exit 2
/venv/bin/python -m pytest -q -p no:cacheprovider --timeout=900 --continue-on-collection-errors -rA 2>&1 | grep -E '^(PASSED|FAILED|ERROR|SKIPPED|XFAIL|XPASS) tests/' | sed 's/ - .*//' | sort > /tmp/outcomes_$$.txt
if diff /tmp/seed_out7/baseline_outcomes.txt /tmp/outcomes_$$.txt > /tmp/outcomes_$$.diff; then echo SAME; else echo DIFFERENT; cat /tmp/outcomes_$$.diff; fi
rm -f /tmp/outcomes_$$.txt /tmp/outcomes_$$.diff
