#!/bin/bash
# usage: seeded_sweep.sh [jobs]   - re-applies every kept seeded change (seeded/*/patch.diff) to a scratch copy of
# /repo's current tree and runs the quick check of its property against the copy.  Writes sensitivity/seeded_sweep.json.
# Never touches /repo; scratch copies live under /dev/shm and are removed at once.
set -u
JOBS=${1:-3}
cd /verif
OUT=/dev/shm/vp_sweep_$$; mkdir -p $OUT
one() {
  d=$1; OUT=$2
  id=$(basename $d)
  prop=$(python3 -c "import json,sys;m=json.load(open('$d/meta.json'));print(m.get('caught_by_property') or m['property'])")
  SCR=/dev/shm/vp_sw_${id}_$$; mkdir -p $SCR
  rsync -a --exclude .git --exclude data --exclude docs /repo/ $SCR/repo/
  if ! (cd $SCR/repo && patch -p1 --quiet < /verif/$d/patch.diff >/dev/null 2>&1); then
    echo "{\"id\":\"$id\",\"property\":\"$prop\",\"result\":\"patch-does-not-apply\"}" > $OUT/$id.json; rm -rf $SCR; return
  fi
  log=$OUT/$id.log
  VERIF_REPO=$SCR/repo VERIF_SEED=1 timeout 1500 /venv/bin/python harness/run.py $prop --tier quick > $log 2>/dev/null
  rc=$?
  sig=$(grep -m1 -o "signature=[^ ]*" $log | cut -c11-)
  echo "{\"id\":\"$id\",\"property\":\"$prop\",\"rc\":$rc,\"signature\":\"$sig\",\"result\":\"$([ $rc = 1 ] && echo caught || echo NOT-CAUGHT)\"}" > $OUT/$id.json
  rm -rf $SCR $log
}
export -f one
# optional second argument: a regular expression selecting seed ids (their rows replace the rows of the last full sweep)
FILTER=${2:-.}
ls -d seeded/*/ | sed 's#/$##' | grep -E "$FILTER" | xargs -P $JOBS -I{} bash -c "one {} $OUT"
python3 - $OUT <<'P'
import json,sys,glob
rows={r["id"]: r for r in (json.load(open(f)) for f in glob.glob(sys.argv[1]+"/*.json"))}
import os
if os.path.exists("/verif/sensitivity/seeded_sweep.json"):
    old={r["id"]: r for r in json.load(open("/verif/sensitivity/seeded_sweep.json"))["rows"]}
    have=set(os.listdir("/verif/seeded"))
    rows={**{k:v for k,v in old.items() if k in have}, **rows}
rows=sorted(rows.values(), key=lambda r:r["id"])
import subprocess
head=subprocess.run(["git","-C","/repo","rev-parse","--short","HEAD"],capture_output=True,text=True).stdout.strip()
json.dump({"repo_head":head,"tier":"quick","seed":1,"total":len(rows),"caught":sum(r["result"]=="caught" for r in rows),"rows":rows},open("/verif/sensitivity/seeded_sweep.json","w"),indent=1)
print("total",len(rows),"caught",sum(r["result"]=="caught" for r in rows))
for r in rows:
    if r["result"]!="caught": print(r)
P
rm -rf $OUT
