#!/bin/bash
# usage: seedtest.sh <PROP> <dir-with-patch.diff-and-demo.py> [tier]
# Applies the patch to a scratch copy of /repo (never to /repo itself), confirms the
# demo passes without and fails with it, runs the check against the copy.
set -u
PROP=$1; DIR=$2; TIER=${3:-quick}
SCR=/dev/shm/vp_mut_$$
mkdir -p $SCR
rsync -a --exclude .git --exclude data --exclude docs /repo/ $SCR/repo/
cd $SCR/repo
echo "--- demo on clean copy"; (PYTHONPATH=$SCR/repo timeout 600 /venv/bin/python $DIR/demo.py >/dev/null 2>&1; echo "demo rc(clean)=$?")
if ! patch -p1 --quiet < $DIR/patch.diff; then echo "PATCH FAILED"; rm -rf $SCR; exit 3; fi
echo "--- demo on patched copy"; (PYTHONPATH=$SCR/repo timeout 600 /venv/bin/python $DIR/demo.py >/dev/null 2>&1; echo "demo rc(patched)=$?")
cd /verif
VERIF_REPO=$SCR/repo /venv/bin/python harness/run.py $PROP --tier $TIER | grep -E "VIOLATION|signature|^\[" | cut -c1-400
echo "check rc=${PIPESTATUS[0]}"
rm -rf $SCR
