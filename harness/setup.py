#!/venv/bin/python
"""Offline setup: make sure hypothesis (and atheris for the fuzz tier) are importable.

Nothing is fetched from a network; wheels come from /opt/veriftools/wheels and are
installed into /verif/.deps (never into /repo)."""
import importlib
import subprocess
import sys
from pathlib import Path

VERIF = Path(__file__).resolve().parent.parent
DEPS = VERIF / ".deps"
WHEELS = "/opt/veriftools/wheels"


def have(mod):
    sys.path.insert(0, str(DEPS))
    importlib.invalidate_caches()
    try:
        importlib.import_module(mod)
        return True
    except Exception:
        return False
    finally:
        sys.path.pop(0)


def install(pkg):
    DEPS.mkdir(exist_ok=True)
    cmd = [sys.executable, "-m", "pip", "install", "--no-index", "--find-links", WHEELS, "--target", str(DEPS), "--quiet", pkg]
    return subprocess.call(cmd)


rc = 0
if not have("hypothesis"):
    rc |= install("hypothesis")
    if not have("hypothesis"):
        print("setup: hypothesis unavailable", file=sys.stderr)
        sys.exit(2)
if not have("atheris"):
    if install("atheris") != 0 or not have("atheris"):
        print("setup: atheris not installable; coverage-guided tier will be skipped", file=sys.stderr)
for d in ("evidence", "replays"):
    (VERIF / d).mkdir(exist_ok=True)
print("setup ok")
